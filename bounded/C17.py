"""C17 bounded stand-in: the real flow iterators against their Python reference, written from the property text.

  Slice(start, stop, step).run(flow)      == xs[start:stop:step]           (list slicing itself is the oracle)
  Slice(..).fill_into(el, xs[i])          fills el iff index i is selected by range(start or 0, stop or inf, step or 1);
                                          LenaStopFill only when no index >= i is selected
  Slice(.., step) for a step that is not a positive integer -> LenaValueError at construction
  Reverse().run(flow)                     == list(reversed(list(xs)))
  Chain(*its)()                           == itertools.chain(*its)   (values and the order in which iterables are pulled)
  CountFrom(start, step)()                == itertools.count(start, step)
  RunningChunkBy(n, container).run(flow)  == [container(xs[j:j+n]) for j in range(len(xs) - n + 1)]

The property's own domain (start, stop in {None,-7..7}, step in {None,1..4}, flows of length 0..10, chunk sizes 1..5)
is enumerated completely in both tiers (it costs a few seconds), for every flow kind x delivery route; the thorough
tier adds a wider exhaustive box and a larger seeded random scope.  Values are compared by identity (`is`) so that order, attribution
and falsy values are visible.  A flow is handed to an element the way lena.core.Sequence hands it over: as an iterator
(routes iter/gen) or through Sequence.run (route seq); a bare list given directly to Slice.run is NOT demanded (see
the final report: a re-iterable flow restarts in _run_negative_islice; Sequence never passes one)."""
import collections
import fractions
import itertools
import os
import sys
sys.path.insert(0, os.path.dirname(os.path.dirname(os.path.abspath(__file__))))
from bounded.common import Run, watchdog, Timeout

import lena.core
from lena.core import LenaStopFill, LenaValueError
from lena.flow import Slice, Reverse, Chain, CountFrom, RunningChunkBy


# ----------------------------------------------------------------------------------------------------------- flows
KINDS = ("range", "falsy", "pairs")
ROUTES = ("iter", "gen", "seq")


def make_values(kind, n):
    """n pairwise non-identical objects (for n <= 11 in kind 'falsy'); position i is recognisable by identity"""
    if kind == "range":
        return list(range(n))
    if kind == "falsy":
        mk = [lambda: 0, lambda: None, lambda: "", lambda: (), lambda: False, lambda: 0.0, lambda: [], lambda: {},
              lambda: frozenset(), lambda: b"", lambda: 0j]
        return [mk[i % len(mk)]() if i < len(mk) else [] for i in range(n)]
    if kind == "pairs":
        return [(i, {"i": i}) for i in range(n)]
    raise ValueError(kind)


def deliver(route, el, xs):
    """the iterable returned by el.run for the flow xs given over the named route"""
    if route == "iter":
        return el.run(iter(xs))
    if route == "gen":
        return el.run((x for x in xs))
    if route == "list":      # only for elements that document containers as flows (RunningChunkBy, Reverse)
        return el.run(xs)
    if route == "seq":
        return lena.core.Sequence(el).run(xs)
    raise ValueError(route)


def same(got, exp):
    return len(got) == len(exp) and all(a is b for a, b in zip(got, exp))


def show(vals):
    return repr(vals) if len(repr(vals)) < 160 else repr(vals)[:157] + "..."


def collect(it):
    with watchdog(2):
        return list(it)


# ------------------------------------------------------------------------------------------------------- Slice.run
def cls(v):
    return "None" if v is None else ("neg" if v < 0 else "nonneg")


def pattern(args):
    s = slice(*args)
    return "start=%s,stop=%s,%s" % (cls(s.start), cls(s.stop), "step1" if s.step in (None, 1) else "stepN")


def check_run(args, kind, L, route):
    """[(fid, what)] for Slice(*args).run on a flow of length L; the oracle is list slicing"""
    xs = make_values(kind, L)
    exp = xs[slice(*args)]
    pat = pattern(args)
    where = "Slice(%s).run over %s flow of length %d (route %s)" % (", ".join(map(repr, args)), kind, L, route)
    try:
        el = Slice(*args)
    except Exception as e:
        return [("Slice.__init__/valid-args-rejected/" + pat, "%s: constructor raised %s: %s" % (where, type(e).__name__, e))]
    out = []
    for attempt in ("first", "reuse"):
        # the same element on a second flow: "for every finite flow"
        try:
            got = collect(deliver(route, el, xs))
        except Timeout:
            out.append(("Slice.run/%s/timeout" % pat, "%s: no result within 2 s" % where))
            break
        except Exception as e:
            out.append(("Slice.run/%s/exception" % pat, "%s: %s: %s, expected %s" % (where, type(e).__name__, e, show(exp))))
            break
        if not same(got, exp):
            if attempt == "reuse":
                k = "second-run-differs"
            elif len(got) != len(exp):
                k = "length-differs"
            else:
                k = "values-differ"
            out.append(("Slice.run/%s/%s" % (pat, k), "%s [%s run]: got %s, expected %s" % (where, attempt, show(got), show(exp))))
            break
    return out


# -------------------------------------------------------------------------------------------------- Slice.fill_into
class Collector(object):
    def __init__(self):
        self.got = []

    def fill(self, value):
        self.got.append(value)


def selected(args, j):
    """is index j of an unbounded flow selected by the non-negative slice args (range(start or 0, stop or inf, step or 1))"""
    s = slice(*args)
    start = 0 if s.start is None else s.start
    step = 1 if s.step is None else s.step
    return j >= start and (j - start) % step == 0 and (s.stop is None or j < s.stop)


def check_fill(args, kind, L):
    xs = make_values(kind, L)
    exp = xs[slice(*args)]
    s = slice(*args)
    tag = "%s,%s" % ("stopNone" if s.stop is None else "stop", "step1" if s.step in (None, 1) else "stepN")
    where = "Slice(%s).fill_into, %s flow of length %d" % (", ".join(map(repr, args)), kind, L)
    try:
        sl = Slice(*args)
    except Exception as e:
        return [("Slice.__init__/valid-args-rejected/" + pattern(args), "%s: constructor raised %s: %s" % (where, type(e).__name__, e))]
    el = Collector()
    out = []
    stopped_at = None
    horizon = max(L, s.stop or 0) + 12
    for i, x in enumerate(xs):
        before = len(el.got)
        raised = False
        try:
            with watchdog(2):
                sl.fill_into(el, x)
        except LenaStopFill:
            raised = True
        except Timeout:
            return out + [("Slice.fill_into/timeout/" + tag, "%s: fill number %d did not return" % (where, i))]
        except Exception as e:
            return out + [("Slice.fill_into/exception/" + tag, "%s: fill number %d raised %s: %s" % (where, i, type(e).__name__, e))]
        new = el.got[before:]
        if stopped_at is not None:
            # after the stop: whatever is signalled, nothing more may be filled
            if new:
                out.append(("Slice.fill_into/filled-after-stop/" + tag,
                            "%s: LenaStopFill at index %d but index %d was filled afterwards" % (where, stopped_at, i)))
                break
            continue
        if raised:
            stopped_at = i
            later = [j for j in range(i, horizon) if selected(args, j)]     # every later index
            if later:
                out.append(("Slice.fill_into/early-stop/" + tag,
                            "%s: LenaStopFill at index %d although indices %s are still to be selected" % (where, i, later[:5])))
                break
            if new:
                out.append(("Slice.fill_into/filled-and-stopped/" + tag, "%s: index %d was filled and LenaStopFill raised" % (where, i)))
                break
            continue
        want = [x] if selected(args, i) else []
        if not same(new, want):
            out.append(("Slice.fill_into/wrong-index-filled/" + tag,
                        "%s: fill number %d put %s into the element, expected %s" % (where, i, show(new), show(want))))
            break
        if s.stop is not None and i >= s.stop:
            # docstring of fill_into: "When the filling should stop, LenaStopFill is raised"
            out.append(("Slice.fill_into/no-stop-at-stop/" + tag,
                        "%s: fill number %d >= stop returned without LenaStopFill (docstring: raised when the filling should stop)" % (where, i)))
            break
    if not out and not same(el.got, exp):
        out.append(("Slice.fill_into/wrong-values-filled/" + tag, "%s: filled %s, expected %s" % (where, show(el.got), show(exp))))
    return out


# --------------------------------------------------------------------------------------------------- Slice.__init__
def step_class(step):
    if step == 0:
        return "zero"
    if step < 0:
        return "negative"
    return "fractional"


def check_ctor(args):
    """args carry a step that is not a positive integer: LenaValueError at construction"""
    route = "nonneg-args" if all(v is None or v >= 0 for v in args[:2]) else "neg-args"
    sc = step_class(args[2])
    where = "Slice(%s)" % ", ".join(map(repr, args))
    try:
        with watchdog(2):
            Slice(*args)
    except LenaValueError:
        return []
    except Timeout:
        return [("Slice.__init__/timeout", "%s did not return" % where)]
    except Exception as e:
        return [("Slice.__init__/bad-step-wrong-exception/%s/%s" % (sc, route),
                 "%s raised %s (%s), expected LenaValueError" % (where, type(e).__name__, e))]
    return [("Slice.__init__/bad-step-accepted/%s/%s" % (sc, route), "%s was constructed, expected LenaValueError" % where)]


# --------------------------------------------------------------------------------------------------------- Reverse
def check_reverse(kind, L, route):
    xs = make_values(kind, L)
    orig = list(xs)
    exp = list(reversed(list(xs)))
    where = "Reverse().run over %s flow of length %d (route %s)" % (kind, L, route)
    el = Reverse()
    for attempt in ("first", "reuse"):
        try:
            got = collect(deliver(route, el, xs))
        except Timeout:
            return [("Reverse.run/timeout", "%s: no result within 2 s" % where)]
        except Exception as e:
            return [("Reverse.run/exception", "%s: %s: %s" % (where, type(e).__name__, e))]
        if not same(got, exp):
            k = "second-run-differs" if attempt == "reuse" else ("length-differs" if len(got) != len(exp) else "order-differs")
            return [("Reverse.run/" + k, "%s [%s run]: got %s, expected %s" % (where, attempt, show(got), show(exp)))]
        if not same(xs, orig):
            return [("Reverse.run/input-list-mutated", "%s: the list given as flow became %s" % (where, show(xs)))]
    return []


# ----------------------------------------------------------------------------------------------------------- Chain
class Logged(object):
    """iterable number k over vals; writes ("iter", k) / ("next", k, i) / ("end", k) into log"""

    def __init__(self, k, vals, log, oneshot):
        self.k, self.vals, self.log = k, vals, log
        self._it = self._gen() if oneshot else None

    def _gen(self):
        for i, v in enumerate(self.vals):
            self.log.append(("next", self.k, i))
            yield v
        self.log.append(("end", self.k))

    def __iter__(self):
        self.log.append(("iter", self.k))
        return self._it if self._it is not None else self._gen()


def chain_inputs(spec, mode, log):
    its = []
    for k, (kind, n) in enumerate(spec):
        vals = [[None, 0, "", (), False][(k + i) % 5] if mode == "falsy" else (k, i) for i in range(n)]
        if kind == "list":
            its.append(vals)
        elif kind == "tuple":
            its.append(tuple(vals))
        elif kind == "iter":
            its.append(iter(vals))
        elif kind == "gen":
            its.append((v for v in vals))
        elif kind == "logged":
            its.append(Logged(k, vals, log, False))
        elif kind == "logged1":
            its.append(Logged(k, vals, log, True))
        else:
            raise ValueError(kind)
    return its


def drive(make, take, log):
    """pull `take` values (None = all) and record them in the same log as the pulls"""
    with watchdog(2):
        it = iter(make())
        n = 0
        while take is None or n < take:
            try:
                v = next(it)
            except StopIteration:
                log.append(("stop",))
                break
            log.append(("got", repr(v)))
            n += 1
    return log


def check_chain(spec, mode, take):
    spec = [tuple(s) for s in spec]
    where = "Chain(%s)() [%s values, %s pulled]" % (", ".join("%s[%d]" % s for s in spec), mode, "all" if take is None else take)
    log_ref = []
    drive(lambda: itertools.chain(*chain_inputs(spec, mode, log_ref)), take, log_ref)
    log_got = []
    try:
        ch = Chain(*chain_inputs(spec, mode, log_got))
        drive(ch, take, log_got)
    except Timeout:
        return [("Chain.__call__/timeout", "%s: no result within 2 s" % where)]
    except Exception as e:
        return [("Chain.__call__/exception", "%s: %s: %s" % (where, type(e).__name__, e))]
    vals_ref = [e for e in log_ref if e[0] in ("got", "stop")]
    vals_got = [e for e in log_got if e[0] in ("got", "stop")]
    if vals_got != vals_ref:
        return [("Chain.__call__/values-differ", "%s: got %s, itertools.chain gives %s" % (where, show(vals_got), show(vals_ref)))]
    if log_got != log_ref:
        return [("Chain.__call__/pull-order-differs",
                 "%s: iterables are pulled in another order than by itertools.chain: %s, expected %s" % (where, show(log_got), show(log_ref)))]
    if take is None and all(k in ("list", "tuple", "logged") for k, _ in spec):
        # re-iterable inputs: a second call starts again
        log2 = []
        try:
            drive(ch, None, log2)
        except Exception as e:
            return [("Chain.__call__/second-call-exception", "%s: second call %s: %s" % (where, type(e).__name__, e))]
        if [e for e in log2 if e[0] in ("got", "stop")] != vals_ref:
            return [("Chain.__call__/second-call-differs", "%s: second call gave %s, expected %s" % (where, show(log2), show(vals_ref)))]
    return []


# ------------------------------------------------------------------------------------------------------- CountFrom
def num(v):
    return fractions.Fraction(v[1], v[2]) if isinstance(v, list) else v


def check_count(args, kwargs, n):
    a = [num(v) for v in args]
    kw = dict((k, num(v)) for k, v in kwargs.items())
    where = "CountFrom(%s)() first %d values" % (", ".join([repr(v) for v in a] + ["%s=%r" % i for i in sorted(kw.items())]), n)
    exp = list(itertools.islice(itertools.count(*a, **kw), n))
    try:
        c = CountFrom(*a, **kw)
    except Exception as e:
        return [("CountFrom.__init__/exception", "%s: %s: %s" % (where, type(e).__name__, e))]
    for attempt in ("first", "second"):
        try:
            got = collect(itertools.islice(c(), n))
        except Timeout:
            return [("CountFrom.__call__/timeout", "%s: no result within 2 s (not lazy?)" % where)]
        except Exception as e:
            return [("CountFrom.__call__/exception", "%s: %s: %s" % (where, type(e).__name__, e))]
        if not (got == exp and [type(v) for v in got] == [type(v) for v in exp]):
            k = "second-call-differs" if attempt == "second" else "values-differ"
            return [("CountFrom.__call__/" + k, "%s [%s call]: got %s, itertools.count gives %s" % (where, attempt, show(got), show(exp)))]
    return []


# -------------------------------------------------------------------------------------------------- RunningChunkBy
CONTAINERS = ("default", "tuple", "tuple-iter", "list-iter", "namedtuple", "star-list")
_NT = {}


def container(name, n):
    """(constructor kwargs for RunningChunkBy, reference constructor applied to a window list)"""
    if name == "default":
        return {}, tuple
    if name == "tuple":
        return {"container": tuple}, tuple
    if name == "tuple-iter":
        return {"container": tuple, "from_iterable": True}, tuple
    if name == "list-iter":
        return {"container": list, "from_iterable": True}, list
    if name == "namedtuple":
        if n not in _NT:
            _NT[n] = collections.namedtuple("W%d" % n, ["f%d" % i for i in range(n)])
        nt = _NT[n]
        return {"container": nt}, (lambda w: nt(*w))
    if name == "star-list":
        def star(*a):
            return list(a)
        return {"container": star}, list
    raise ValueError(name)


def check_rcb(n, cname, kind, L, route):
    xs = make_values(kind, L)
    kw, ref = container(cname, n)
    exp = [ref(xs[j:j + n]) for j in range(L - n + 1)]
    where = "RunningChunkBy(%d, %s).run over %s flow of length %d (route %s)" % (n, cname, kind, L, route)
    try:
        el = RunningChunkBy(n, **kw)
    except Exception as e:
        return [("RunningChunkBy.__init__/exception", "%s: %s: %s" % (where, type(e).__name__, e))]
    for attempt in ("first", "reuse"):
        try:
            got = collect(deliver(route, el, xs))
        except Timeout:
            return [("RunningChunkBy.run/timeout", "%s: no result within 2 s" % where)]
        except Exception as e:
            return [("RunningChunkBy.run/exception/" + cname, "%s: %s: %s" % (where, type(e).__name__, e))]
        sfx = "/second-run" if attempt == "reuse" else ""
        if len(got) != len(exp):
            return [("RunningChunkBy.run/window-count-differs" + sfx, "%s: %d windows %s, expected %d %s" % (where, len(got), show(got), len(exp), show(exp)))]
        for j, (g, e) in enumerate(zip(got, exp)):
            if type(g) is not type(e):
                return [("RunningChunkBy.run/container-type-differs/" + cname + sfx, "%s: window %d is a %s, expected %s" % (where, j, type(g).__name__, type(e).__name__))]
            if not same(list(g), list(e)):
                return [("RunningChunkBy.run/window-content-differs" + sfx, "%s: window %d is %s, expected %s (all: %s)" % (where, j, show(g), show(e), show(got)))]
        if len(set(id(g) for g in got)) != len(got):
            return [("RunningChunkBy.run/windows-share-one-object", "%s: the yielded windows are not distinct objects" % where)]
    return []


# ------------------------------------------------------------------------------------------------------- replayers
def replay_run(args, kind, L, route):
    return bool(check_run(args, kind, L, route))


def replay_fill(args, kind, L):
    return bool(check_fill(args, kind, L))


def replay_ctor(args):
    return bool(check_ctor(args))


def replay_reverse(kind, L, route):
    return bool(check_reverse(kind, L, route))


def replay_chain(spec, mode, take):
    return bool(check_chain(spec, mode, take))


def replay_count(args, kwargs, n):
    return bool(check_count(args, kwargs, n))


def replay_rcb(n, cname, kind, L, route):
    return bool(check_rcb(n, cname, kind, L, route))


REPLAY = {"replay_run": replay_run, "replay_fill": replay_fill, "replay_ctor": replay_ctor, "replay_reverse": replay_reverse,
          "replay_chain": replay_chain, "replay_count": replay_count, "replay_rcb": replay_rcb}


def report(R, problems, fn, args, nontrivial=True):
    R.case(nontrivial, {"fn": fn, "args": args})
    for fid, what in problems:
        R.fail(fid, what, {"fn": fn, "args": args}, {"fn": fn, "args": args})


def arg_forms(start, stop, step):
    """every way to write the slice (start, stop, step) as Slice arguments"""
    forms = [[start, stop, step]]
    if step is None:
        forms.append([start, stop])
        if start is None:
            forms.append([stop])
    return forms


# ------------------------------------------------------------------------------------------------------------ body
def body(R):
    rng = R.rng
    combos = [(k, r) for k in KINDS for r in ROUTES]

    # ---- Slice.run: the property's domain
    idx = [None] + list(range(-7, 8))
    steps = [None, 1, 2, 3, 4]
    R.scope("Slice.run", "ALL start, stop in {None,-7..7}, step in {None,1..4}, argument forms (stop)/(start,stop)/(start,stop,step), "
            "flow lengths 0..10, x 3 value kinds (ints / 10 distinct falsy objects / (data, context) pairs) x 3 routes "
            "(iterator, generator, Sequence.run of a list); each element run twice; oracle xs[start:stop:step], compared by identity", True)
    c = 0
    for start in idx:
        for stop in idx:
            for step in steps:
                for args in arg_forms(start, stop, step):
                    for L in range(0, 11):
                        c += 1
                        for kind, route in combos:
                            report(R, check_run(args, kind, L, route), "replay_run", [args, kind, L, route], L > 0)

    # ---- Slice.fill_into: all non-negative combinations
    nn = [None] + list(range(0, 8))
    R.scope("Slice.fill_into", "ALL start, stop in {None,0..7}, step in {None,1..4}, 3 argument forms, flow lengths 0..10, %s; "
            "checked after every single fill: filled iff the index is selected; LenaStopFill at index i only if no index in "
            "[i, max(len, stop)+12) is selected; nothing filled after the stop; LenaStopFill by index stop (docstring)"
            % "3 value kinds", True)
    c = 0
    for start in nn:
        for stop in nn:
            for step in steps:
                for args in arg_forms(start, stop, step):
                    for L in range(0, 11):
                        c += 1
                        for kind in KINDS:
                            report(R, check_fill(args, kind, L), "replay_fill", [args, kind, L], L > 0)

    # ---- constructor
    bad_steps = [0, -1, -2, -3, -4, 0.0, 0.5, 1.5, 2.5, -0.5, -1.5, -2.0]
    R.scope("Slice.__init__", "ALL start, stop in {None,-7..7} x steps {0,-1..-4, 0.0, 0.5, 1.5, 2.5, -0.5, -1.5, -2.0}: LenaValueError at "
            "construction (integer-valued positive floats such as 2.0 are outside the property's domain and not demanded)", True)
    for start in idx:
        for stop in idx:
            for step in bad_steps:
                report(R, check_ctor([start, stop, step]), "replay_ctor", [[start, stop, step]])

    # ---- wider box and random (thorough)
    if R.thorough:
        idx2 = [None] + list(range(-12, 13))
        R.scope("Slice.run (wider box)", "ALL start, stop in {None,-12..12}, step in {None,1..6}, flow lengths 0..14, kind x route rotating", True)
        c = 0
        for start in idx2:
            for stop in idx2:
                for step in [None, 1, 2, 3, 4, 5, 6]:
                    for L in range(0, 15):
                        c += 1
                        kind, route = combos[c % 9]
                        report(R, check_run([start, stop, step], kind, L, route), "replay_run", [[start, stop, step], kind, L, route], L > 0)
        nn2 = [None] + list(range(0, 13))
        R.scope("Slice.fill_into (wider box)", "ALL start, stop in {None,0..12}, step in {None,1..6}, flow lengths 0..16, kind rotating", True)
        c = 0
        for start in nn2:
            for stop in nn2:
                for step in [None, 1, 2, 3, 4, 5, 6]:
                    for L in range(0, 17):
                        c += 1
                        report(R, check_fill([start, stop, step], KINDS[c % 3], L), "replay_fill", [[start, stop, step], KINDS[c % 3], L], L > 0)
    n_rand = 20000 if R.thorough else 1500
    R.scope("Slice.run / fill_into (random)", "%d seeded cases: start, stop in {None, -60..60}, step in {None, 1..9}, flow lengths 0..80 "
            "(fill_into when no argument is negative)" % n_rand, False)
    for _ in range(n_rand):
        start = rng.choice([None] + [rng.randint(-60, 60)] * 4)
        stop = rng.choice([None] + [rng.randint(-60, 60)] * 4)
        step = rng.choice([None, rng.randint(1, 9), rng.randint(1, 9)])
        L = rng.randint(0, 80)
        kind = rng.choice(("range", "pairs"))
        route = rng.choice(ROUTES)
        args = [start, stop, step]
        report(R, check_run(args, kind, L, route), "replay_run", [args, kind, L, route], L > 0)
        if all(v is None or v >= 0 for v in args):
            report(R, check_fill(args, kind, L), "replay_fill", [args, kind, L], L > 0)

    # ---- Reverse
    R.scope("Reverse.run", "ALL flow lengths 0..%d x 3 value kinds x 4 routes (iterator, generator, list, Sequence.run); run twice; "
            "oracle list(reversed(list(xs))), compared by identity; a list given as flow stays unchanged" % (40 if R.thorough else 12), True)
    for L in range(0, 41 if R.thorough else 13):
        for kind in KINDS:
            for route in ROUTES + ("list",):
                report(R, check_reverse(kind, L, route), "replay_reverse", [kind, L, route], L > 1)

    # ---- Chain
    ck = ("list", "tuple", "iter", "gen", "logged", "logged1")
    maxk, maxn = (4, 3) if R.thorough else (3, 2)
    R.scope("Chain.__call__", "ALL sequences of 0..%d iterables of lengths 0..%d; kinds (list, tuple, iterator, generator, logging re-iterable, "
            "logging one-shot) chosen per position by rotation; tagged and falsy values; all values pulled and every shorter prefix; "
            "oracle: itertools.chain on identically built inputs - same values, same end, same interleaving of iter()/next() "
            "on the inputs with the values delivered; second call on re-iterable inputs" % (maxk, maxn), True)
    c = 0
    for k in range(0, maxk + 1):
        for lens in itertools.product(range(0, maxn + 1), repeat=k):
            for variant in range(3):
                c += 1
                if variant == 2:
                    spec = [["logged" if (i + c) % 2 else "logged1", n] for i, n in enumerate(lens)]
                elif variant == 1:
                    spec = [["logged", n] for n in lens]
                else:
                    spec = [[ck[(c + i) % len(ck)], n] for i, n in enumerate(lens)]
                for mode in ("tagged", "falsy"):
                    for take in [None] + list(range(0, sum(lens) + 1)):
                        report(R, check_chain(spec, mode, take), "replay_chain", [spec, mode, take], sum(lens) > 0)

    # ---- CountFrom
    nums = list(range(-3, 4)) + [0.5, -0.25, 1e16, ["F", 1, 3], ["F", -7, 2], True]
    R.scope("CountFrom.__call__", "ALL start, step in {-3..3, 0.5, -0.25, 1e16, 1/3, -7/2 (Fraction), True} in the forms (), (start), "
            "(start, step), start=, step=, start=+step=; the first %d values, value and type equal to itertools.count; called twice"
            % (40 if R.thorough else 15), True)
    n = 40 if R.thorough else 15
    report(R, check_count([], {}, n), "replay_count", [[], {}, n])
    for a in nums:
        report(R, check_count([a], {}, n), "replay_count", [[a], {}, n])
        report(R, check_count([], {"start": a}, n), "replay_count", [[], {"start": a}, n])
        report(R, check_count([], {"step": a}, n), "replay_count", [[], {"step": a}, n])
        for b in nums:
            report(R, check_count([a, b], {}, n), "replay_count", [[a, b], {}, n])
            report(R, check_count([], {"start": a, "step": b}, n), "replay_count", [[], {"start": a, "step": b}, n])
            report(R, check_count([a], {"step": b}, n), "replay_count", [[a], {"step": b}, n])

    # ---- RunningChunkBy
    sizes = range(1, 9) if R.thorough else range(1, 6)
    maxL = 16 if R.thorough else 10
    R.scope("RunningChunkBy.run", "ALL chunk sizes %d..%d x containers (default, tuple, tuple/list with from_iterable, namedtuple and a "
            "*args function without) x flow lengths 0..%d x 3 value kinds x 4 routes (list, iterator, generator, Sequence.run); run "
            "twice; oracle [container(xs[j:j+n]) for j in range(len-n+1)]: count, container type, contents by identity, windows are "
            "distinct objects" % (sizes[0], sizes[-1], maxL), True)
    for n in sizes:
        for cname in CONTAINERS:
            for L in range(0, maxL + 1):
                for kind in KINDS:
                    for route in ROUTES + ("list",):
                        report(R, check_rcb(n, cname, kind, L, route), "replay_rcb", [n, cname, kind, L, route], L >= n)


if __name__ == "__main__":
    R = Run("C17", REPLAY)
    sys.exit(R.main(body, "the property's finite domain enumerated completely (both tiers), wider exhaustive box and seeded random cases in "
                          "addition; a case is non-trivial when the real element was run on a non-empty flow (RunningChunkBy: at least one "
                          "window; Reverse: at least two values) and compared with the Python reference; cases are distinct by construction "
                          "of the enumeration"))
