"""C20 bounded stand-in / cross-validation: fresh interpreters.
(1) `from lena.X import *` works for every public subpackage, and the set of lena modules it loads equals the static
    import closure computed by the resolver (validates the resolver's import model);
(2) a vocabulary of public elements behaves identically with only its own subpackage imported and with the whole
    framework imported, and never fails with NameError / AttributeError on a module."""
import json
import os
import subprocess
import sys
sys.path.insert(0, os.path.dirname(os.path.dirname(os.path.abspath(__file__))))
from bounded.common import Run
from pyvc import resolver

REPO = os.environ.get("LENA_REPO", "/repo")
PKGS = ["context", "core", "flow", "math", "meta", "output", "structures", "variables", "input"]

# (subpackage, snippet printing a result) -- each runs in a fresh interpreter
SCENARIOS = [
    ("context", "from lena.context import UpdateContext; print(UpdateContext('a', 1)((1, {})))"),
    ("context", "from lena.context import UpdateContext; print(UpdateContext('a', '{{b}}', raise_on_missing=False, default=0)((1, {'b': 3})))"),
    ("context", "from lena.context import DeleteContext; print(DeleteContext('a')((1, {'a': 1, 'b': 2})))"),
    ("context", "import lena.context as c; print(c.get_recursively({'a': {'b': 1}}, 'a.b'), c.intersection({'a': 1}, {'a': 1, 'b': 2}))"),
    ("flow", "from lena.flow import SelectContext; print(SelectContext('a.b', lambda x: x > 0)((1, {})))"),
    ("flow", "from lena.flow import SelectContext; print(SelectContext('a.b', lambda x: x > 0)((1, {'a': {'b': 2}})))"),
    ("flow", "import lena.core\nfrom lena.flow import RunningChunkBy\ntry:\n    RunningChunkBy(2, container=5)\nexcept lena.core.LenaTypeError: print('LenaTypeError')"),
    ("flow", "from lena.flow import RunningChunkBy; print(list(RunningChunkBy(2).run(iter([1, 2, 3]))))"),
    ("flow", "from lena.flow import Count, Slice, Filter, Reverse; print(list(Count().run(iter([1, 2]))), list(Slice(1).run(iter([1, 2]))), list(Filter(int).run(iter([1, 'a']))), list(Reverse().run(iter([1, 2]))))"),
    ("flow", "from lena.flow import GroupBy; g = GroupBy('a'); g.fill((1, {'a': 1})); g.fill((2, {'a': 2})); print(list(g.compute()))"),
    ("core", "from lena.core import Split, Sequence; print(list(Split([(lambda x: x + 1,), (lambda x: x * 2,)]).run(iter([1, 2]))), list(Sequence(lambda x: x).run([1])))"),
    ("core", "from lena.core import Split; print(list(Split([]).run(iter([1, 2]))))"),
    ("math", "from lena.math import Mean, Sum, DSum, Vectorize, VarianceMeanCount\nm = Mean(); m.fill(1); m.fill(3); print(list(m.compute()))\ns = Sum(); s.fill(2); print(list(s.compute()))"),
    ("math", "from lena.math import Mean\nm = Mean(sum_seq=None); m.fill((1, {'a': 1})); m.fill(3); print(list(m.compute()))"),
    ("math", "from lena.math import vector3, mesh, clip, isclose; print(vector3(1, 2, 3).x, mesh((0, 1), 2), clip(3, (0, 1)), isclose(1, 1))"),
    ("structures", "from lena.structures import histogram, Histogram, hist_to_graph; h = histogram([0, 1, 2]); h.fill(0.5); print(h.bins, hist_to_graph(h).coords)"),
    ("structures", "from lena.structures import SplitIntoBins, histogram\nfrom lena.math import Sum\nfrom lena.variables import Variable\ns = SplitIntoBins(Sum(), Variable('x', lambda v: v), [0, 1, 2]); s.fill(0.5); print([r[0].bins for r in s.compute()])"),
    ("variables", "from lena.variables import Variable, Compose, Combine; v = Variable('x', lambda d: d + 1, type='t'); print(v(1), Compose(v, Variable('y', lambda d: d * 2, type='u'))(1)[0], Combine(v, v, name='c')(1)[0])"),
    ("meta", "from lena.meta import SetContext, UpdateContextFromStatic, StoreContext; from lena.core import Sequence; s = Sequence(SetContext('a', 1), UpdateContextFromStatic()); print(list(s.run([0])))"),
    ("output", "from lena.output import MakeFilename, ToCSV; print(MakeFilename('out')((1, {})), list(ToCSV().run([1])))"),
]


def run_py(code, timeout=60):
    env = dict(os.environ)
    env["PYTHONPATH"] = REPO
    env["PYTHONDONTWRITEBYTECODE"] = "1"
    p = subprocess.run(["/venv/bin/python", "-W", "ignore", "-c", code], capture_output=True, text=True, env=env, timeout=timeout)
    return p.returncode, p.stdout.strip(), p.stderr.strip().split("\n")[-1] if p.stderr.strip() else ""


def star_import(pkg):
    code = ("import sys\nfrom lena.%s import *\nprint('\\n'.join(sorted(m for m in sys.modules if m == 'lena' or m.startswith('lena.'))))" % pkg)
    return run_py(code)


def replay_star(pkg):
    return star_import(pkg)[0] != 0


def replay_scenario(idx):
    pkg, code = SCENARIOS[idx]
    rc, out, err = run_py(code)
    return rc != 0 and ("NameError" in err or ("AttributeError" in err and "module" in err))


def body(R):
    w = resolver.World(REPO)
    R.scope("star imports", "every public subpackage, fresh interpreter each (finite, complete)", True)
    for k, pkg in enumerate(PKGS):
        rc, out, err = star_import(pkg)
        R.case(True, {"from lena.%s import *" % pkg: "rc=%d" % rc})
        if not R.check(rc == 0, "star-import lena." + pkg, "from lena.%s import * fails: %s" % (pkg, err), {"pkg": pkg},
                       {"fn": "replay_star", "args": [pkg]}):
            continue
        loaded = set(out.split("\n"))
        static = w.closure("lena." + pkg)
        # the static closure must cover what really gets imported (soundness of the resolver's model), and agree
        R.check(loaded == static, "resolver-import-closure lena." + pkg,
                "resolver import closure of lena.%s differs from sys.modules: only-static %s only-runtime %s"
                % (pkg, sorted(static - loaded), sorted(loaded - static)), {"pkg": pkg})
    R.scope("public elements, own subpackage only vs whole framework", "%d scenarios x 2 interpreters" % len(SCENARIOS), True)
    allimp = "\n".join("import lena.%s" % p for p in PKGS if p != "input") + "\n"
    for idx, (pkg, code) in enumerate(SCENARIOS):
        a = run_py(code)
        b = run_py(allimp + code)
        R.case(True, {"subpackage": pkg, "code": code[:80]})
        bad = a[0] != 0 and ("NameError" in a[2] or ("AttributeError" in a[2] and "module" in a[2]))
        R.check(not bad, "fresh-interpreter %s #%d" % (pkg, idx), "with only its subpackage imported: %s | %s" % (code[:100], a[2]),
                {"code": code}, {"fn": "replay_scenario", "args": [idx]})
        R.check(a[:2] == b[:2], "import-order-dependence %s #%d" % (pkg, idx),
                "behaviour differs between only-own-subpackage and whole-framework imports: %r vs %r (%s)" % (a, b, code[:100]), {"code": code})


if __name__ == "__main__":
    R = Run("C20", {"replay_star": replay_star, "replay_scenario": replay_scenario})
    sys.exit(R.main(body, "fresh /venv/bin/python interpreter per case; non-trivial = the interpreter ran the snippet to a printed "
                          "result or exception; every case is distinct by construction"))
