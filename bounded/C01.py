"""C01 bounded stand-in: the REAL Sequence / Source / adapters.Run / meta.flatten / meta.alter_sequence against the
property's reference "left-to-right composition".

Reference (written from the property text, never calling Sequence.run, Source.__call__ or adapters.Run): the flat
list of elements is folded over the MATERIALISED flow, stage by stage,

    stage_0 = list(flow);   stage_i = T_i(stage_{i-1});   expected = stage_n

where T_i, "the element's stream transformation", is
  * for a plain callable (no run method):   [f(v) for v in stage]                        (what adapters.Run must do),
  * for a fill/compute accumulator:          fill every value in order, then list(compute())   (ditto),
  * for an element with a run method:        list(fresh_element.run(iter(stage)))         (the element's own run),
  * for an element without data part (SetContext): the identity,
every stage using a FRESH instance of the element (elements are stateful).  The real code runs the same element
kinds lazily chained, grouped into every bracketing of nested Sequences, with empty Sequences inserted, as the
tail of a Source, or after a nested Source; all must yield exactly expected (values, order, types; or the same
exception class).  Ill-typed arguments must be refused with LenaTypeError by the constructor."""
import copy
import itertools
import os
import sys
sys.path.insert(0, os.path.dirname(os.path.dirname(os.path.abspath(__file__))))
from bounded.common import Run, watchdog, Timeout

# no file system access: nothing here reads or writes files (Cache is not part of the vocabulary)

import lena.core
import lena.flow
import lena.math
import lena.meta
import lena.variables
from lena.core import Sequence, Source, Split, LenaTypeError
from lena.core import adapters, meta
from lena.core.lena_sequence import LenaSequence


# ------------------------------------------------------------------------------------------------ values
def _dc(v):
    """(data, context) view of a flow value, written here (not lena.flow.get_data_context)"""
    if isinstance(v, tuple) and len(v) == 2 and isinstance(v[1], dict):
        return v[0], v[1]
    return v, None


def _mk(v, data, upd=None):
    """value with the shape of v (bare stays bare), new data, context updated with upd"""
    d, c = _dc(v)
    if c is None:
        return data
    c = dict(c)
    if upd:
        c.update(upd)
    return (data, c)


def canon(v):
    """canonical, type-aware, order-insensitive-for-dicts text of a value"""
    if isinstance(v, dict):
        return "{" + ",".join(sorted("%s:%s" % (canon(k), canon(x)) for k, x in v.items())) + "}"
    if isinstance(v, tuple):
        return "(" + ",".join(canon(x) for x in v) + ")"
    if isinstance(v, list):
        return "[" + ",".join(canon(x) for x in v) + "]"
    return "%s:%r" % (type(v).__name__, v)


DATA = [0, 3, 1, 4, 2, 6, 5]        # falsy first value, not monotone (Reverse / order visible)


def make_flow(length, mask):
    """value j is bare DATA[j] when bit j of mask is 0, else (DATA[j], {"c": j})"""
    return [((DATA[j % 7], {"c": j}) if (mask >> j) & 1 else DATA[j % 7]) for j in range(length)]


def flow_from_json(fl):
    return [(tuple(v) if isinstance(v, list) else v) for v in fl]


def flow_to_json(fl):
    return [(list(v) if isinstance(v, tuple) else v) for v in fl]


# ------------------------------------------------------------------------------------------------ stub elements
class CallObj(object):
    """callable object (no run); numbers its invocations so that a double or skipped call is visible"""

    def __init__(self, tag):
        self.tag, self.n = tag, 0

    def __call__(self, v):
        self.n += 1
        d, c = _dc(v)
        return _mk(v, d * 100 + self.tag * 10 + self.n, {"call%d" % self.tag: self.n})


class RunStub(object):
    """run element: tags every value with its index and appends a closing value (count)"""

    def __init__(self, tag):
        self.tag = tag

    def run(self, flow):
        n = 0
        for v in flow:
            d, c = _dc(v)
            yield _mk(v, d * 10 + self.tag, {"run%d" % self.tag: n})
            n += 1
        yield (n, {"closed": self.tag})


class RunListStub(object):
    """run element whose run is not a generator function: consumes the whole flow when called and returns an
    iterator over doubled data (like adapters.Run for accumulators, or Filter.run)"""

    def run(self, flow):
        return iter([_mk(v, _dc(v)[0] * 2 + 1) for v in flow])


class RunRawListStub(object):
    """run element returning a plain list (no next): legal as the LAST element, the docstring of Sequence.run
    promises that the flow "exiting from the sequence" is converted to an iterator"""

    def run(self, flow):
        return [_mk(v, _dc(v)[0] * 3 + 2) for v in flow]


class FCStub(object):
    """fill/compute accumulator (not callable, no run): yields the digits-concatenation of the data, then the count"""

    def __init__(self, tag):
        self.tag, self.acc, self.n, self.ctx = tag, 0, 0, None

    def fill(self, v):
        d, c = _dc(v)
        self.acc = self.acc * 10 + (d % 10)
        self.n += 1
        if c is not None:
            self.ctx = c

    def compute(self):
        yield (self.acc, {"fc%d" % self.tag: self.n}) if self.ctx is None else (self.acc, dict(self.ctx, fc=self.n))
        yield self.n


class RunAndFC(object):
    """has run AND fill/compute AND is callable: in a Sequence the run method is the element (documented in Run)"""

    def run(self, flow):
        for v in flow:
            yield _mk(v, _dc(v)[0] + 1000)

    def fill(self, v):
        raise AssertionError("fill of an element with a run method was used")

    def compute(self):
        raise AssertionError("compute of an element with a run method was used")

    def __call__(self, v):
        raise AssertionError("__call__ of an element with a run method was used")


def plain_tag1(v):
    return _mk(v, _dc(v)[0] * 10 + 1, {"t1": True})


def plain_mod3(v):
    """callable whose results are often falsy (bare 0)"""
    return _mk(v, _dc(v)[0] % 3)


def _even(v):
    return _dc(v)[0] % 2 == 0


def _big(v):
    return _dc(v)[0] > 2


def _times7(v):
    return _mk(v, _dc(v)[0] * 7)


# kind -> (category, maker).  category decides the reference transformation (see module docstring)
KINDS = [
    ("call",      "call",   lambda: plain_tag1),
    ("callobj",   "call",   lambda: CallObj(2)),
    ("call-mod3", "call",   lambda: plain_mod3),
    ("runstub",   "run",    lambda: RunStub(3)),
    ("fcstub",    "fc",     lambda: FCStub(4)),
    ("Variable",  "call",   lambda: lena.variables.Variable("dbl", lambda x: x * 2 + 1)),
    ("Filter",    "run",    lambda: lena.flow.Filter(_even)),
    ("Slice1_4",  "run",    lambda: lena.flow.Slice(1, 4)),
    ("Slice_m1",  "run",    lambda: lena.flow.Slice(-1)),
    ("Count",     "run",    lambda: lena.flow.Count()),
    ("RunIf",     "run",    lambda: lena.flow.RunIf(_big, _times7)),
    ("Reverse",   "run",    lambda: lena.flow.Reverse()),
    ("End",       "run",    lambda: lena.flow.End()),
    ("Sum",       "fc",     lambda: lena.math.Sum()),
    ("Mean",      "fc",     lambda: lena.math.Mean()),
    ("Split",     "run",    lambda: Split([plain_tag1, lena.math.Sum()], bufsize=2)),
    ("SplitEmpty", "run",   lambda: Split([])),
    ("SetContext", "nodata", lambda: lena.meta.SetContext("static", 1)),
    ("runlist",   "run",    lambda: RunListStub()),
    ("run+fc",    "run",    lambda: RunAndFC()),
    # only ever placed LAST in a list (its run returns a list, which only the end of a Sequence must cope with)
    ("runrawlist", "run",   lambda: RunRawListStub()),
]
NK = len(KINDS) - 1             # kinds that may stand anywhere
RAWLIST = NK
KNAME = [k[0] for k in KINDS]


def reference(prog, flow):
    """staged left fold; returns ("OK", [canon...]) or ("EXC", class name)"""
    stage = list(flow)
    try:
        for k in prog:
            cat, mk = KINDS[k][1], KINDS[k][2]
            el = mk()
            if cat == "call":
                stage = [el(v) for v in stage]
            elif cat == "fc":
                for v in stage:
                    el.fill(v)
                stage = list(el.compute())
            elif cat == "run":
                stage = list(el.run(iter(stage)))
            elif cat == "nodata":
                pass
    except Exception as e:
        return ("EXC", type(e).__name__)
    return ("OK", [canon(v) for v in stage])


# ------------------------------------------------------------------------------------------------ program trees
# a tree is a list whose items are kind indices (leaves) or lists (nested Sequences, possibly empty)
def leaves(tree):
    out = []
    for it in tree:
        if isinstance(it, list):
            out.extend(leaves(it))
        else:
            out.append(it)
    return out


def groupings(items):
    """all ways to cut items into >= 1 consecutive groups, every group of size >= 2 being bracketed recursively
    (as a nested Sequence) in all ways: the plane trees over the leaves without unary nodes (Schroeder trees)"""
    n = len(items)
    if n == 0:
        return [[]]
    res = []

    def rec(i, acc):
        if i == n:
            res.append(list(acc))
            return
        for j in range(i + 1, n + 1):
            part = items[i:j]
            if len(part) == 1:
                rec(j, acc + [part[0]])
            elif len(part) < n:
                for sub in groupings(part):
                    rec(j, acc + [sub])
    rec(0, [])
    return res


def bracketings(prog):
    """flat list first; then every Schroeder tree; the whole wrapped once and twice; a unary wrap of each single
    leaf; an empty Sequence inserted at every position (top level and inside the first nested group)"""
    prog = list(prog)
    out = [prog]
    seen = {repr(prog)}

    def add(t):
        r = repr(t)
        if r not in seen:
            seen.add(r)
            out.append(t)
    for g in groupings(prog):
        add(g)
    add([list(prog)])
    add([[list(prog)]])
    for i in range(len(prog)):
        add(prog[:i] + [[prog[i]]] + prog[i + 1:])
    for i in range(len(prog) + 1):
        add(prog[:i] + [[]] + prog[i:])
    if len(prog) >= 2:
        add([prog[:1] + [[]]] + prog[1:])
        add(prog[:-1] + [[[]] + prog[-1:]])
    return out


def build(tree):
    """list of fresh real elements for the items of tree (nested lists -> Sequence objects)"""
    return [Sequence(*build(it)) if isinstance(it, list) else KINDS[it][2]() for it in tree]


class _Gen(object):
    """callable first element of a Source returning a generator over a private copy of the flow"""

    def __init__(self, flow):
        self.flow = flow

    def __call__(self):
        for v in self.flow:
            yield v


def consume(it):
    """snapshot every value when it is yielded"""
    return [canon(v) for v in it]


def is_iterator(x):
    return hasattr(x, "__next__") and hasattr(x, "__iter__")


MODES = ("seq-iter", "seq-list", "seq-gen", "src-call", "src-iterable", "src-iterator", "src-listcall", "src-nested",
         # finite re-iterable flows that are not sequences: a dict view, an object with only __iter__
         "seq-dictvalues", "seq-iteronly", "src-dictvalues", "src-iteronly")


class _IterOnly(object):
    """a re-iterable container without __next__, __len__ or __getitem__"""

    def __init__(self, items):
        self._items = items

    def __iter__(self):
        return iter(self._items)


def real(mode, tree, flow):
    """returns ("OK", [canon]) / ("EXC", name, phase); phase in construct / run"""
    flow = copy.deepcopy(flow)
    phase = "construct"
    try:
        with watchdog(2):
            if mode.startswith("seq"):
                s = Sequence(*build(tree))
                phase = "run"
                inp = (iter(flow) if mode == "seq-iter" else flow if mode == "seq-list" else
                       dict(enumerate(flow)).values() if mode == "seq-dictvalues" else
                       _IterOnly(flow) if mode == "seq-iteronly" else (v for v in flow))
                res = s.run(inp)
                return ("OK", consume(res), is_iterator(res))
            if mode == "src-nested":
                # Source(Source(first, <first top-level item>), <rest>): another regrouping of the same list
                first = Source(_Gen(flow), *build(tree[:1]))
                s = Source(first, *build(tree[1:]))
            else:
                first = (_Gen(flow) if mode == "src-call" else flow if mode == "src-iterable" else
                         iter(flow) if mode == "src-iterator" else
                         dict(enumerate(flow)).values() if mode == "src-dictvalues" else
                         _IterOnly(flow) if mode == "src-iteronly" else (lambda: flow))
                s = Source(first, *build(tree))
            phase = "run"
            res = s()
            return ("OK", consume(res), is_iterator(res))
    except Timeout:
        return ("EXC", "Timeout", phase)
    except Exception as e:
        return ("EXC", type(e).__name__, phase)


def classify(exp, got):
    """clause of the property that failed, for the fid"""
    if got[0] == "EXC":
        if got[1] == "Timeout":
            return "non-termination"
        if got[1] == "LenaTypeError":
            return "LenaTypeError-at-%s-for-valid-elements" % got[2]
        return "unexpected-exception" if exp[0] == "OK" else "different-exception"
    if exp[0] == "EXC":
        return "element-exception-swallowed"
    e, g = exp[1], got[1]
    if len(e) != len(g):
        return "values-lost" if len(g) < len(e) else "values-added"
    if sorted(e) == sorted(g):
        return "order"
    return "values-differ"


def agrees(exp, got):
    if exp[0] == "OK":
        return got[0] == "OK" and got[1] == exp[1]
    return got[0] == "EXC" and got[1] == exp[1]


def fid_for(mode, tree, prog):
    if mode.startswith("seq"):
        if not prog:
            return "Sequence.run/empty-not-identity"
        if tree == prog:
            return "Sequence.run/flat"
        if [] in tree or any(isinstance(t, list) and [] in t for t in tree):
            return "Sequence.run/empty-nested-not-identity"
        return "Sequence.run/regrouping"
    if mode == "src-nested":
        return "Source.__call__/nested-source"
    if not prog:
        return "Source.__call__/no-tail"
    return "Source.__call__/tail" if tree == prog else "Source.__call__/tail-regrouping"


def tree_text(tree):
    return "[" + ", ".join(tree_text(t) if isinstance(t, list) else KNAME[t] for t in tree) + "]"


def check_one(R, mode, tree, flow, exp=None):
    """compare one real run with the reference; returns True iff it violates"""
    prog = leaves(tree)
    if exp is None:
        exp = reference(prog, copy.deepcopy(flow))
    got = real(mode, tree, flow)
    if agrees(exp, got):
        if got[0] == "OK" and not got[2]:
            # docstrings of Sequence.run / flow_to_iter: the flow leaving a sequence has both __iter__ and __next__
            if R is not None:
                R.fail("%s/result-not-an-iterator" % fid_for(mode, tree, prog).split("/")[0],
                       "%s %s on flow %r: the values are right but the returned flow has no __next__" % (mode, tree_text(tree), flow),
                       {"mode": mode, "tree": tree, "flow": flow_to_json(flow)},
                       {"fn": "replay_compose", "args": [mode, tree, flow_to_json(flow)]})
            return True
        return False
    if R is not None:
        fid = "%s/%s" % (fid_for(mode, tree, prog), classify(exp, got))
        R.fail(fid, "%s %s on flow %r: got %s, left-to-right composition gives %s" % (
            mode, tree_text(tree), flow, _short(got), _short(exp)),
            {"mode": mode, "tree": tree, "kinds": tree_text(tree), "flow": flow_to_json(flow), "got": got, "expected": exp},
            {"fn": "replay_compose", "args": [mode, tree, flow_to_json(flow)]})
    return True


def _short(res):
    s = repr(res)
    return s if len(s) < 300 else s[:300] + "..."


def replay_compose(mode, tree, flow):
    return check_one(None, mode, tree, flow_from_json(flow))


# ------------------------------------------------------------------------------------------------ repeated calls
def second_call_case(prog, flow, first_taken):
    """Source(<list>, *elements) called twice (the first result consumed up to first_taken values, None = fully): with
    stateless elements BOTH calls are the composition applied to the list.  Returns None or (clause, text)."""
    exp = reference(prog, copy.deepcopy(flow))
    data = copy.deepcopy(flow)
    try:
        with watchdog(2):
            s = Source(data, *build(list(prog)))
            r1 = s()
            if first_taken is None:
                got1 = ("OK", consume(r1))
            else:
                got1 = None
                for _ in range(first_taken):
                    next(r1, None)
                if hasattr(r1, "close"):
                    r1.close()
            got2 = ("OK", consume(s()))
    except Timeout:
        return ("non-termination", "a call did not return")
    except Exception as e:
        if exp[0] == "EXC" and exp[1] == type(e).__name__:
            return None
        return ("raises", "%s raised, expected %s" % (type(e).__name__, _short(exp)))
    if got1 is not None and not agrees(exp, got1 + (True,)):
        return ("first-call-differs", "first call gave %s, expected %s" % (_short(got1), _short(exp)))
    if not agrees(exp, got2 + (True,)):
        return ("second-call-differs", "second call gave %s, expected %s (first call %s)"
                % (_short(got2), _short(exp), "consumed fully" if first_taken is None else "abandoned after %d values" % first_taken))
    return None


def replay_second_call(prog, flow, first_taken):
    return second_call_case(prog, flow_from_json(flow), first_taken) is not None


# ------------------------------------------------------------------------------------------------ ill-typed arguments
class _NoCompute(object):
    def fill(self, v):
        pass


class _RunNotCallable(object):
    run = 5


class _FillNotCallable(object):
    fill = 1

    def compute(self):
        yield 1


BAD = [("int 5", lambda: 5), ("str", lambda: "abc"), ("None", lambda: None), ("list [1, 2]", lambda: [1, 2]),
       ("dict", lambda: {"a": 1}), ("object()", lambda: object()), ("float", lambda: 1.5),
       ("list of callables", lambda: [plain_tag1, plain_tag1]),
       ("fill without compute", lambda: _NoCompute()), ("run = 5 (not callable)", lambda: _RunNotCallable()),
       ("fill = 1 (not callable) with compute", lambda: _FillNotCallable()),
       # containers of perfectly good elements are not elements themselves (only Split groups elements by tuples)
       ("tuple holding an accumulator", lambda: (lena.math.Sum(),)),
       ("list of a callable and an accumulator", lambda: [plain_tag1, FCStub(4)]),
       ("tuple of run elements", lambda: (lena.flow.Count(), RunStub(3))),
       ("tuple holding a fill/request element", lambda: (lena.core.FillRequest(lena.math.Sum(), bufsize=1, buffer_input=True, reset=True),))]
BAD_FIRST = [0, 2, 5, 6]        # of these, what is neither callable nor iterable (bad first element of a Source)


def bad_case(where, good, pos, bad, nest):
    """where in Sequence / Source-tail / Source-first / Run.  Returns None when the constructor raises
    LenaTypeError, else a (clause, text) pair"""
    els = [KINDS[k][2]() for k in good]
    b = BAD[bad][1]()
    if nest:
        args = els[:pos] + [("BADSEQ", b)] + els[pos:]
    else:
        args = els[:pos] + [b] + els[pos:]
    try:
        with watchdog(2):
            if nest:
                args = [Sequence(a[1]) if isinstance(a, tuple) and a and a[0] == "BADSEQ" else a for a in args]
            if where == "Sequence":
                obj = Sequence(*args)
            elif where == "Source-tail":
                obj = Source(_Gen([1, 2]), *args)
            elif where == "Source-first":
                obj = Source(b, *els)
            else:
                obj = adapters.Run(b)
    except LenaTypeError:
        return None
    except Timeout:
        return ("non-termination", "constructor did not return")
    except Exception as e:
        return ("wrong-exception-at-construction", "constructor raised %s instead of LenaTypeError" % type(e).__name__)
    # accepted: see what happens later, for the message only
    later = "nothing raised during a run either"
    try:
        with watchdog(2):
            if where == "Sequence":
                list(obj.run(iter([1, (2, {})])))
            elif where.startswith("Source"):
                list(obj())
            else:
                list(obj.run(iter([1])))
    except Timeout:
        later = "the run hangs"
    except Exception as e:
        later = "%s raised later, during the run" % type(e).__name__
    return ("accepted-at-construction", "constructor accepted it; " + later)


def replay_bad(where, good, pos, bad, nest):
    return bad_case(where, good, pos, bad, nest) is not None


# ------------------------------------------------------------------------------------------------ adapters.Run
def run_adapter_case(kind, flow):
    """adapters.Run(el).run(flow) against the reference of the element's category; None or (clause, text)"""
    exp = reference([kind], copy.deepcopy(flow))
    fl = copy.deepcopy(flow)
    try:
        with watchdog(2):
            r = adapters.Run(KINDS[kind][2]())
            got = ("OK", [canon(v) for v in r.run(iter(fl))])
    except Timeout:
        got = ("EXC", "Timeout", "run")
    except Exception as e:
        got = ("EXC", type(e).__name__, "run")
    if agrees(exp, got):
        return None
    return (classify(exp, got), "got %s, expected %s" % (_short(got), _short(exp)))


def replay_run_adapter(kind, flow):
    return run_adapter_case(kind, flow_from_json(flow)) is not None


# ------------------------------------------------------------------------------------------------ flatten / alter_sequence
class _Alt(object):
    """element with an alter_sequence hook that changes nothing"""

    def __init__(self):
        self.seen = []

    def alter_sequence(self, seq):
        self.seen.append(seq)
        return seq

    def run(self, flow):
        for v in flow:
            yield _mk(v, _dc(v)[0] + 500)


def build_shared(tree, elements, container="seq"):
    """nested structure over the GIVEN element objects (by position), to compare identities after flatten"""
    pos = [0]

    def rec(t, top):
        items = []
        for it in t:
            if isinstance(it, list):
                items.append(rec(it, False))
            else:
                items.append(elements[pos[0]])
                pos[0] += 1
        if top and container == "tuple":
            return tuple(items)
        return Sequence(*items)
    return rec(tree, True)


def flat_leaves(obj):
    """my own reading of 'the elements of a (nested) sequence in order'"""
    out = []
    for el in (obj._seq if isinstance(obj, LenaSequence) else obj):
        if isinstance(el, LenaSequence):
            out.extend(flat_leaves(el))
        else:
            out.append(el)
    return out


def flatten_case(tree, container, flow):
    prog = leaves(tree)
    els = [KINDS[k][2]() for k in prog]
    try:
        nested = build_shared(tree, els, container)
        res = meta.flatten(nested)
    except Exception as e:
        return ("exception", "flatten raised %s" % type(e).__name__)
    items = list(res)
    if any(isinstance(x, (LenaSequence, list)) for x in items):
        return ("nested-left", "flatten left a nested sequence inside its result: %r" % (items,))
    if len(items) != len(els) or any(a is not b for a, b in zip(items, els)):
        idx = [next((i for i, e in enumerate(els) if e is x), None) for x in items]
        if sorted(i for i in idx if i is not None) == list(range(len(els))) and len(items) == len(els):
            return ("order", "flatten returned the elements in positions %r" % idx)
        return ("elements", "flatten returned positions %r of %d elements" % (idx, len(els)))
    nested_any = any(isinstance(t, list) for t in tree)
    if not nested_any and res is not nested:
        return ("flat-not-unchanged", "a flat sequence was not returned unchanged")
    # the flattened list, run as a Sequence, is still the composition
    exp = reference(prog, copy.deepcopy(flow))
    fl = copy.deepcopy(flow)
    try:
        got = ("OK", consume(Sequence(*items).run(iter(fl))))
    except Exception as e:
        got = ("EXC", type(e).__name__, "run")
    if not agrees(exp, got):
        return ("run-differs", "Sequence(*flatten(s)) gives %s, expected %s" % (_short(got), _short(exp)))
    return None


def replay_flatten(tree, container, flow):
    return flatten_case(tree, container, flow_from_json(flow)) is not None


def alter_case(tree, with_hook, via_split, flow):
    """alter_sequence over elements without an effective hook keeps the elements and their order, and the altered
    sequence still computes the composition (also when reached through Split([seq]))"""
    prog = leaves(tree)
    els = [KINDS[k][2]() for k in prog]
    if with_hook:
        els = els + [_Alt()]
        tree = tree + [-1]
    try:
        nested = build_shared([t for t in tree], els)
        if via_split:
            sp = Split([nested], bufsize=None)
            fl = copy.deepcopy(flow)
            got = ("OK", consume(iter(sp.run(iter(fl)))))
            res = None
        else:
            res = meta.alter_sequence(nested)
    except Exception as e:
        return ("exception", "alter_sequence raised %s" % type(e).__name__)
    if res is not None:
        got_leaves = flat_leaves(res) if isinstance(res, (LenaSequence, list, tuple)) else [res]
        if len(got_leaves) != len(els) or any(a is not b for a, b in zip(got_leaves, els)):
            idx = [next((i for i, e in enumerate(els) if e is x), None) for x in got_leaves]
            if sorted(i for i in idx if i is not None) == list(range(len(els))) and len(idx) == len(els):
                return ("order", "alter_sequence returned the elements in positions %r" % idx)
            return ("elements", "alter_sequence returned positions %r of %d elements" % (idx, len(els)))
        fl = copy.deepcopy(flow)
        try:
            seq = res if isinstance(res, Sequence) else Sequence(*res)
            got = ("OK", consume(seq.run(iter(fl))))
        except Exception as e:
            got = ("EXC", type(e).__name__, "run")
    # reference: the fold, then the hook element's +500 map
    exp = reference(prog, copy.deepcopy(flow))
    if with_hook and exp[0] == "OK":
        st = list(_Alt().run(iter(_uncanon_run(prog, flow))))
        exp = ("OK", [canon(v) for v in st])
    if not agrees(exp, got):
        return ("run-differs", "altered sequence gives %s, expected %s" % (_short(got), _short(exp)))
    return None


def _uncanon_run(prog, flow):
    """the reference fold once more, keeping the values (for appending the hook stub's map)"""
    stage = list(copy.deepcopy(flow))
    for k in prog:
        cat, el = KINDS[k][1], KINDS[k][2]()
        if cat == "call":
            stage = [el(v) for v in stage]
        elif cat == "fc":
            for v in stage:
                el.fill(v)
            stage = list(el.compute())
        elif cat == "run":
            stage = list(el.run(iter(stage)))
    return stage


def replay_alter(tree, with_hook, via_split, flow):
    return alter_case(tree, with_hook, via_split, flow_from_json(flow)) is not None


# ------------------------------------------------------------------------------------------------ body
def compose_scope(R, progs, flows, modes_for, sample=True):
    for prog in progs:
        prog = list(prog)
        trees = bracketings(prog)
        for flow in flows:
            exp = reference(prog, copy.deepcopy(flow))
            for ti, tree in enumerate(trees):
                for mode in modes_for(ti, tree):
                    if mode == "src-nested" and not tree:
                        continue
                    R.case(bool(prog) and bool(flow), {"mode": mode, "tree": tree_text(tree), "flow": flow_to_json(flow)} if sample else None)
                    check_one(R, mode, tree, flow, exp)


def body(R):
    rng = R.rng
    thorough = R.thorough

    def modes_all(ti, tree):
        # the flat list in every way of feeding; regroupings as Sequence and as Source tail / nested Source
        if ti == 0:
            return MODES
        return ("seq-iter", "src-call", "src-nested")

    def modes_light(ti, tree):
        return MODES if ti == 0 else ("seq-iter", "src-call")

    # flows
    small = [make_flow(n, m) for n in (0, 1, 2) for m in range(1 << n)]
    f5 = [make_flow(5, m) for m in (0, 31, 10)]
    f7 = [make_flow(7, 0b0101101)]
    if thorough:
        flows2 = [make_flow(n, m) for n in range(0, 5) for m in range(1 << n)] + f5 + f7
        flows3 = [make_flow(0, 0), make_flow(1, 1), make_flow(2, 1), make_flow(5, 10), make_flow(7, 0b0101101)]
    else:
        flows2 = [make_flow(0, 0), make_flow(1, 0), make_flow(1, 1), make_flow(2, 2), make_flow(5, 10), make_flow(7, 0b0101101)]
        flows3 = [make_flow(0, 0), make_flow(2, 1), make_flow(5, 10)]

    R.scope("Sequence.run / Source.__call__ vs staged left fold, element lists of length 0..1",
            "all lists of length 0..1 over %d element kinds (%s); all bracketings (unary nestings, inserted empty "
            "Sequences); fed as iterator, list, generator; as Source tail with callable / iterable / iterator / list-returning first "
            "element and after a nested Source; flows: all bare/(data,context) mixes of length 0..%d plus lengths 5 and 7"
            % (NK, ", ".join(KNAME), 4 if thorough else 2), True)
    compose_scope(R, [()] + [(k,) for k in range(NK)],
                  ([make_flow(n, m) for n in range(0, 5) for m in range(1 << n)] if thorough else small) + f5 + f7, modes_all)

    R.scope("Sequence.run / Source.__call__ vs staged left fold, element lists of length 2",
            "all %d^2 ordered pairs of element kinds; all bracketings incl. empty Sequences; %d flows (lengths %s, "
            "bare and (data,context) values mixed)" % (NK, len(flows2), sorted(set(len(f) for f in flows2))), True)
    compose_scope(R, itertools.product(range(NK), repeat=2), flows2, modes_all, sample=False)

    R.scope("Sequence.run / Source.__call__: last element's run returns a plain list",
            "all lists of length 0..2 over %d kinds followed by a run element that returns a list; all bracketings; every "
            "way of feeding; 3 flows; values as the fold, and (docstring of Sequence.run) the result has __next__" % NK, True)
    compose_scope(R, [p + (RAWLIST,) for n in range(3) for p in itertools.product(range(NK), repeat=n)],
                  [make_flow(0, 0), make_flow(2, 1), make_flow(5, 10)], modes_light, sample=False)

    if thorough:
        R.scope("Sequence.run / Source.__call__ vs staged left fold, element lists of length 3",
                "all %d^3 triples over all %d element kinds; all Schroeder bracketings, wraps, inserted "
                "empty Sequences; %d flows of lengths 0,1,2,5,7" % (NK, NK, len(flows3)), True)
        compose_scope(R, itertools.product(range(NK), repeat=3), flows3, modes_light, sample=False)
        n4, n5 = 1500, 400
    else:
        n3 = 450
        R.scope("Sequence.run / Source.__call__ vs staged left fold, element lists of length 3 (sample)",
                "%d seeded random triples over all %d kinds; all Schroeder bracketings, wraps, inserted empty Sequences; "
                "%d flows of lengths 0,2,5" % (n3, NK, len(flows3)), False)
        compose_scope(R, [[rng.randrange(NK) for _ in range(3)] for _ in range(n3)], flows3, modes_light, sample=False)
        n4, n5 = 120, 40
    R.scope("Sequence.run / Source.__call__ vs staged left fold, element lists of length 4 and 5..6 (sample)",
            "%d seeded random lists of length 4 and %d of length 5..6 over all %d kinds; all bracketings of the list "
            "(11 / 45 / 197 Schroeder trees plus wraps and empty Sequences); one random flow each of length 0..7 with a "
            "random bare/(data,context) mix" % (n4, n5, NK), False)
    for i in range(n4 + n5):
        ln = 4 if i < n4 else rng.choice([5, 6])
        prog = [rng.randrange(NK) for _ in range(ln)]
        L = rng.randrange(0, 8)
        flow = make_flow(L, rng.randrange(1 << L) if L else 0)
        trees = bracketings(prog)
        if ln > 4:
            trees = trees[:1] + rng.sample(trees[1:], 40)
        exp = reference(prog, copy.deepcopy(flow))
        for ti, tree in enumerate(trees):
            for mode in modes_light(ti, tree):
                R.case(True)
                check_one(R, mode, tree, flow, exp)

    # ---- a Source may be called any number of times
    stateless = [KNAME.index(n) for n in ("call", "call-mod3", "Variable", "Filter", "Slice1_4", "RunIf", "Reverse")]
    cflows = [make_flow(n, m) for n, m in ((0, 0), (1, 0), (2, 2), (3, 5), (5, 10))]
    R.scope("Source(<iterable>, e1..en) called repeatedly: every call is the composition applied to the iterable",
            "lists of 0..2 stateless elements over %d kinds, %d list flows; first call consumed fully / abandoned after 0 "
            "or 1 values, then a second call of the same Source object" % (len(stateless), len(cflows)), True)
    for n in range(0, 3):
        for prog in itertools.product(stateless, repeat=n):
            for flow in cflows:
                for taken in (None, 0, 1):
                    R.case(bool(flow), {"prog": [KNAME[k] for k in prog], "flow": flow_to_json(flow), "first_taken": taken})
                    import warnings as _w
                    with _w.catch_warnings():
                        _w.simplefilter("ignore")
                        r = second_call_case(prog, flow, taken)
                    if r:
                        R.fail("Source.__call__/repeated-call/%s" % r[0],
                               "Source(%r, %s): %s" % (flow, [KNAME[k] for k in prog], r[1]),
                               {"prog": [KNAME[k] for k in prog], "flow": flow_to_json(flow), "first_taken": taken},
                               {"fn": "replay_second_call", "args": [list(prog), flow_to_json(flow), taken]})

    # ---- ill-typed arguments
    R.scope("Sequence.__init__ / Source.__init__ / adapters.Run.__init__ reject ill-typed arguments at construction",
            "%d kinds of non-elements (%s) at every position of every list of 0..2 valid elements over 6 kinds, bare and "
            "inside a nested Sequence, for Sequence and Source tail; non-callable non-iterable first element of a Source; "
            "adapters.Run(bad)" % (len(BAD), ", ".join(b[0] for b in BAD)), True)
    goods = [KNAME.index(n) for n in ("call", "fcstub", "Filter", "Count", "Sum", "Split")]
    for n in range(0, 3):
        for good in itertools.product(goods, repeat=n):
            good = list(good)
            for pos in range(n + 1):
                for bad in range(len(BAD)):
                    for where in ("Sequence", "Source-tail"):
                        for nest in (False, True):
                            if nest and n == 2:
                                continue
                            R.case(True, {"where": where, "good": [KNAME[g] for g in good], "pos": pos, "bad": BAD[bad][0]})
                            r = bad_case(where, good, pos, bad, nest)
                            if r:
                                R.fail("%s.__init__/ill-typed-argument/%s" % (where.split("-")[0], r[0]),
                                       "%s(%s) with %s at position %d%s: %s" % (where, [KNAME[g] for g in good], BAD[bad][0], pos,
                                                                                 " (inside a nested Sequence)" if nest else "", r[1]),
                                       {"where": where, "good": good, "pos": pos, "bad": BAD[bad][0], "nested": nest},
                                       {"fn": "replay_bad", "args": [where, good, pos, bad, nest]})
    for bad in range(len(BAD)):
        R.case(True)
        r = bad_case("Run", [], 0, bad, False)
        if r:
            R.fail("Run.__init__/ill-typed-argument/%s" % r[0], "adapters.Run(%s): %s" % (BAD[bad][0], r[1]),
                   {"bad": BAD[bad][0]}, {"fn": "replay_bad", "args": ["Run", [], 0, bad, False]})
    for bad in BAD_FIRST:
        for good in ([], [0], [0, KNAME.index("Sum")]):
            R.case(True)
            r = bad_case("Source-first", good, 0, bad, False)
            if r:
                R.fail("Source.__init__/ill-typed-first/%s" % r[0], "Source(%s, %s): %s" % (BAD[bad][0], [KNAME[g] for g in good], r[1]),
                       {"bad": BAD[bad][0], "good": good}, {"fn": "replay_bad", "args": ["Source-first", good, 0, bad, False]})

    # ---- adapters.Run alone
    aflows = [make_flow(n, m) for n in range(0, 4) for m in range(1 << n)] + f5 + f7
    R.scope("adapters.Run(el).run: callable -> map, fill/compute -> fill all then compute, run method -> itself",
            "every element kind alone (%d), %d flows (all mixes of length 0..3, lengths 5, 7)" % (NK - 1, len(aflows)), True)
    for k in range(NK):
        if KINDS[k][1] == "nodata":
            continue
        for flow in aflows:
            R.case(bool(flow), {"kind": KNAME[k], "flow": flow_to_json(flow)})
            r = run_adapter_case(k, flow)
            if r:
                R.fail("Run.run/%s/%s" % (KINDS[k][1], r[0]), "adapters.Run(%s).run(%r): %s" % (KNAME[k], flow, r[1]),
                       {"kind": KNAME[k], "flow": flow_to_json(flow)}, {"fn": "replay_run_adapter", "args": [k, flow_to_json(flow)]})

    # ---- flatten / alter_sequence
    nt = 3 if not thorough else 4
    R.scope("meta.flatten / meta.alter_sequence keep the elements and their order",
            "all bracketings of all lists of length 0..%d over 5 kinds (call, fcstub, Filter, Count, Sum) as nested "
            "Sequences and as a tuple of Sequences: identity and order of the flattened elements, flat input returned "
            "unchanged, Sequence(*flatten(s)) still the composition; alter_sequence with no hook / a no-op hook element, "
            "and through Split([seq], bufsize=None)" % nt, True)
    fkinds = [KNAME.index(n) for n in ("call", "fcstub", "Filter", "Count", "Sum")]
    fl = make_flow(5, 10)
    for n in range(0, nt + 1):
        for prog in itertools.product(fkinds, repeat=n):
            for tree in bracketings(list(prog)):
                for container in ("seq", "tuple"):
                    R.case(n > 0, {"tree": tree_text(tree), "container": container})
                    r = flatten_case(tree, container, fl)
                    if r:
                        R.fail("flatten/%s" % r[0], "flatten(%s of %s): %s" % (container, tree_text(tree), r[1]),
                               {"tree": tree, "container": container}, {"fn": "replay_flatten", "args": [tree, container, flow_to_json(fl)]})
                for with_hook in (False, True):
                    for via_split in (False, True):
                        R.case(n > 0)
                        r = alter_case(tree, with_hook, via_split, fl)
                        if r:
                            R.fail("alter_sequence%s/%s" % ("-via-Split" if via_split else "", r[0]),
                                   "alter_sequence(%s%s)%s: %s" % (tree_text(tree), " + hook element" if with_hook else "",
                                                                    " via Split([seq])" if via_split else "", r[1]),
                                   {"tree": tree, "hook": with_hook, "via_split": via_split},
                                   {"fn": "replay_alter", "args": [tree, with_hook, via_split, flow_to_json(fl)]})


# ---- a plain callable is a MAP: whatever it returns is one value of the outgoing flow
RESULT_KINDS = ["generator", "iterator", "list", "tuple", "dict", "none", "generator-of-nothing"]


def _container_result(kind):
    def f(v):
        x = v[0] if isinstance(v, tuple) else v
        if kind == "generator":
            return (x + i for i in range(2))
        if kind == "generator-of-nothing":
            return (i for i in ())
        if kind == "iterator":
            return iter([x, x + 1])
        if kind == "list":
            return [x, x + 1]
        if kind == "tuple":
            return (x, x + 1, x + 2)
        if kind == "dict":
            return {"x": x}
        return None
    return f


def _describe(v):
    """the next element takes the callable's result as ONE datum"""
    if v is None or isinstance(v, (list, tuple, dict)):
        return ("one", type(v).__name__, repr(v))
    return ("one", type(v).__name__, repr(list(v)))


def container_result_case(kind, form, n):
    """returns (fid, text) or None"""
    f = _container_result(kind)
    flow = [k * 10 for k in range(n)]
    exp = [_describe(f(v)) for v in flow]
    try:
        with watchdog(5):
            if form == "flat":
                got = list(Sequence(f, _describe).run(iter(flow)))
            elif form == "nested-left":
                got = list(Sequence(Sequence(f), _describe).run(iter(flow)))
            elif form == "nested-right":
                got = list(Sequence(f, Sequence(_describe)).run(iter(flow)))
            elif form == "source":
                got = list(Source(lambda: iter(flow), f, _describe)())
            elif form == "adapter":
                got = [_describe(v) for v in adapters.Run(f).run(iter(flow))]
            else:
                raise ValueError(form)
    except Timeout:
        return "non-termination", "did not return"
    except Exception as e:
        return "raises:" + type(e).__name__, "%s: %s" % (type(e).__name__, str(e)[:150])
    if got != exp:
        return "result-of-a-callable-is-not-one-value", "got %r, the composition of the two maps gives %r" % (got, exp)
    return None


def replay_container_result(kind, form, n):
    return container_result_case(kind, form, n) is not None


def body_callable_results(R):
    forms = ["flat", "nested-left", "nested-right", "source", "adapter"]
    R.scope("a plain callable is a map: its result is ONE value of the outgoing flow, whatever its type",
            "callables returning %s x 5 ways of composing them with a second callable that takes the result as one datum "
            "(flat Sequence, nested on either side, Source tail, adapters.Run alone) x flows of length 0..3" % RESULT_KINDS, True)
    for kind in RESULT_KINDS:
        for form in forms:
            for n in range(4):
                R.case(n > 0, {"result": kind, "form": form, "n": n})
                r = container_result_case(kind, form, n)
                if r:
                    R.fail("Run._call_run/%s" % r[0], "callable returning a %s, %s, %d values: %s" % (kind, form, n, r[1]),
                           {"result": kind, "form": form, "n": n}, {"fn": "replay_container_result", "args": [kind, form, n]})


_body_main = body


def body(R):
    _body_main(R)
    body_callable_results(R)


if __name__ == "__main__":
    R = Run("C01", {"replay_container_result": replay_container_result, "replay_compose": replay_compose, "replay_bad": replay_bad, "replay_run_adapter": replay_run_adapter,
                    "replay_flatten": replay_flatten, "replay_alter": replay_alter,
                    "replay_second_call": replay_second_call})
    sys.exit(R.main(body, "reference = staged left fold of the elements' own stream transformations over the materialised "
                          "flow (map for callables, fill-all-then-compute for accumulators, the element's run otherwise), "
                          "fresh element instances per evaluation; a case is one (program tree, way of driving, flow) "
                          "triple executed on the real Sequence/Source and compared value by value (type-aware, snapshot at "
                          "yield time) or by exception class; non-trivial when both the list and the flow are non-empty"))
