"""C04 bounded stand-in: context non-interference between Split/Zip branches and across accumulators.

Part A (second sentence of the property): every framework accumulator is driven through histories of
fill / compute-or-request / "mutate everything that was yielded so far".  The reference is the property text itself:
the set of mutable objects reachable from a yielded context must be disjoint from the set reachable from the context
of every value that was filled and from every context yielded earlier (object-identity graph; all inspected objects
are kept alive while ids are compared).  A behavioural cross-check (the "so that ..." clause) runs a twin element
that never sees a mutation: the mutated element must yield what the twin yields, and the filled values must not
change when a yielded context is mutated.  Besides "call compute()/request(), then mutate" (ops C, M) there is the
op I: the generator is consumed value by value and every yielded context is mutated BEFORE the generator is resumed
(what a following Variable / UpdateContext / MakeFilename does), so that the later yields of the same call are
inspected after the earlier ones were changed.  Configurations whose compute() yields several values per call
(multi-valued sums inside Mean / Vectorize / SplitIntoBins, Vectorize over a Split of accumulators, Split / Zip of
Vectorize) make "a context it yielded earlier" range over the yields of one call as well.

Part B (first sentence): Split driven by run, by fill/compute and by fill/request, and Zip driven by fill/compute and
fill/request, with branches that mutate data and context in place (user mutator, Variable, UpdateContext,
MakeFilename, Count).  Probes placed at the entry and at the exit of every branch record what the branch saw and
produced; the reference is the same branch driven alone on a private deep copy of the flow, plus the pristine flow
itself for the branch entry, plus disjointness of the identity graphs of different branches.
Branches that stop (LenaStopFill) are enumerated separately: a fill/compute or fill/request branch with an in-place
mutator BEFORE a Slice(K) stands at every position of branch lists of length 2..4, for every K and bufsize (so the
stop falls on the first, a middle and the last value of a block, in the first and in later blocks, on the last value
of the flow or before it): whatever the stopped branch consumed must not reach the branches behind it."""
import copy
import decimal
import itertools
import os
import re
import sys
import types

sys.path.insert(0, os.path.dirname(os.path.dirname(os.path.abspath(__file__))))
from bounded.common import Run, watchdog, Timeout

import lena.core
import lena.flow
import lena.context
import lena.math
import lena.output
import lena.structures
import lena.variables
from lena.core import (Split, Sequence, Source, FillComputeSeq, FillRequestSeq, FillCompute, FillRequest,
                       LenaStopFill)
from lena.flow import Zip, Count, StoreFilled, Slice, CountFrom
from lena.math import Sum, DSum, Mean, VarianceMeanCount, Vectorize
from lena.variables import Variable
from lena.structures import Histogram, SplitIntoBins, Graph, NumpyHistogram


# --------------------------------------------------------------------------------------------------- helpers
def ctx_of(value):
    """the context object of a (data, context) value, None if the value carries no context"""
    if isinstance(value, tuple) and len(value) == 2 and isinstance(value[1], dict):
        return value[1]
    return None


_ATOMS = (int, float, complex, str, bytes, bool, type(None), decimal.Decimal)


def reach(x, acc=None):
    """{id: object} of every mutable object reachable from x (the dict keeps the objects alive)"""
    if acc is None:
        acc = {}
    if isinstance(x, _ATOMS):
        return acc
    if isinstance(x, (dict, list, set, bytearray)):
        if id(x) in acc:
            return acc
        acc[id(x)] = x
        if isinstance(x, dict):
            for k, v in x.items():
                reach(k, acc)
                reach(v, acc)
        elif isinstance(x, (list, set)):
            for v in x:
                reach(v, acc)
    elif isinstance(x, (tuple, frozenset)):
        for v in x:
            reach(v, acc)
    elif isinstance(x, (types.FunctionType, types.BuiltinFunctionType, types.MethodType, type, types.ModuleType)):
        pass
    else:
        d = getattr(x, "__dict__", None)
        if isinstance(d, dict):
            if id(x) in acc:
                return acc
            acc[id(x)] = x
            for v in d.values():
                reach(v, acc)
    return acc


def canon(x):
    """structural, order-stable, comparable and printable image of a value"""
    if isinstance(x, dict):
        return ("dict", tuple(sorted((repr(k), canon(v)) for k, v in x.items())))
    if isinstance(x, list):
        return ("list", tuple(canon(v) for v in x))
    if isinstance(x, tuple):
        return ("tuple:" + type(x).__name__, tuple(canon(v) for v in x))
    if isinstance(x, (set, frozenset)):
        return ("set", tuple(sorted(repr(canon(v)) for v in x)))
    if isinstance(x, _ATOMS):
        return (type(x).__name__, repr(x))
    if isinstance(x, lena.structures.histogram):
        return ("histogram", canon(x.edges), canon(x.bins))
    if isinstance(x, Graph):
        return ("Graph", canon(list(x._points)))
    return ("obj:" + type(x).__name__, repr(x) if " at 0x" not in repr(x) else "")


def show(x):
    """compact text of a value for `what`"""
    if isinstance(x, lena.structures.histogram):
        return "histogram(%r, bins=%r)" % (x.edges, x.bins)
    if isinstance(x, tuple) and type(x) is tuple:
        return "(" + ", ".join(show(v) for v in x) + ("," if len(x) == 1 else "") + ")"
    if isinstance(x, list):
        return "[" + ", ".join(show(v) for v in x) + "]"
    return repr(x)


def mutate_everything(ctx, stamp):
    """an 'arbitrary downstream in-place update': touch every mutable object reachable from ctx"""
    objs = list(reach(ctx).values())
    for o in objs:
        if isinstance(o, dict):
            o["__mut%s" % stamp] = [stamp]
        elif isinstance(o, list):
            o.append("__mut%s" % stamp)
        elif isinstance(o, set):
            o.add("__mut%s" % stamp)


class _numpy_stub(object):
    """NumpyHistogram imports numpy in __init__; when numpy is absent a minimal stand-in of numpy.histogram is
    provided for the duration of the constructor only (the property concerns the context, not the counts)"""

    def __enter__(self):
        self.installed = False
        try:
            import numpy  # noqa: F401
        except ImportError:
            m = types.ModuleType("numpy")

            def histogram(data, *args, **kwargs):
                bins = kwargs.get("bins", "auto")
                if isinstance(bins, (list, tuple)):
                    edges = list(bins)
                else:
                    lo = min(data) if data else 0
                    hi = max(data) if data else 1
                    if hi <= lo:
                        hi = lo + 1
                    edges = [lo, (lo + hi) / 2.0, hi]
                counts = [0] * (len(edges) - 1)
                for d in data:
                    for i in range(len(edges) - 1):
                        last = i == len(edges) - 2
                        if edges[i] <= d < edges[i + 1] or (last and d == edges[i + 1]):
                            counts[i] += 1
                            break
                return counts, edges

            m.histogram = histogram
            sys.modules["numpy"] = m
            self.installed = True
        return self

    def __exit__(self, *a):
        if self.installed:
            sys.modules.pop("numpy", None)
        return False


# ------------------------------------------------------------------------------------ part A: accumulators
class TwoSums(object):
    """a user sum element that yields two values, the second with its own context (drives Mean.compute's
    second deep copy)"""

    def __init__(self):
        self.t = 0

    def fill(self, v):
        self.t += lena.flow.get_data(v)

    def compute(self):
        yield self.t
        yield (self.t * 2, {"two": {"k": [1]}})

    def reset(self):
        self.t = 0


class ManySums(TwoSums):
    """three values per compute(): bare, with a nested context, with another context"""

    def compute(self):
        yield self.t
        yield (self.t * 2, {"two": {"k": [1]}})
        yield (self.t * 3, {"three": [3], "two": {"j": 0}})


class Stamp(object):
    """a downstream element that updates every context that passes in place, each time with another content"""

    def __init__(self):
        self.k = 0

    def __call__(self, value):
        data, context = lena.flow.get_data_context(value)
        context.setdefault("stamps", []).append(self.k)
        context.setdefault("c", {})["stamp"] = self.k
        self.k += 1
        return (data, context)


def _num(i):
    return i + 1


def _vec(i):
    return [i + 1, i + 2]


def _pt(i):
    return ((i % 3,), (i * i,))


def _pt_flat(i):
    return (i % 3, i * i)


def _np_hist(**kw):
    with _numpy_stub():
        return NumpyHistogram(**kw)


# name -> (class name used in the fid, method, factory, data generator)
ACCS = [
    ("Sum", "Sum", "compute", lambda: Sum(), _num),
    ("DSum", "DSum", "compute", lambda: DSum(), _num),
    ("Mean", "Mean", "compute", lambda: Mean(), _num),
    ("Mean(pass_on_empty)", "Mean", "compute", lambda: Mean(pass_on_empty=True), _num),
    ("Mean(Sum())", "Mean", "compute", lambda: Mean(sum_seq=Sum()), _num),
    ("Mean(TwoSums())", "Mean", "compute", lambda: Mean(sum_seq=TwoSums()), _num),
    ("VarianceMeanCount", "VarianceMeanCount", "compute", lambda: VarianceMeanCount(), _num),
    ("VarianceMeanCount(corrected=False)", "VarianceMeanCount", "compute",
     lambda: VarianceMeanCount(corrected=False, pass_on_empty=True), _num),
    ("VarianceMeanCount(DSum,DSum)", "VarianceMeanCount", "compute",
     lambda: VarianceMeanCount(sum_sq=DSum(), sum_=DSum(), corrected=False), _num),
    ("Vectorize(Sum(),dim=2)", "Vectorize", "compute", lambda: Vectorize(Sum(), dim=2), _vec),
    ("Vectorize([Sum(),Mean()])", "Vectorize", "compute", lambda: Vectorize([Sum(), Mean(pass_on_empty=True)]), _vec),
    # several values per compute() call: every one of them needs its own context
    ("Mean(ManySums())", "Mean", "compute", lambda: Mean(sum_seq=ManySums()), _num),
    ("Vectorize(TwoSums(),dim=2)", "Vectorize", "compute", lambda: Vectorize(TwoSums(), dim=2), _vec),
    ("Vectorize([ManySums(),Sum()])", "Vectorize", "compute", lambda: Vectorize([ManySums(), Sum()]), _vec),
    ("Vectorize(Split([Sum(),Mean()]),dim=2)", "Vectorize", "compute",
     lambda: Vectorize(Split([Sum(), Mean(pass_on_empty=True)]), dim=2), _vec),
    ("Vectorize((ManySums,Stamp),dim=2)", "Vectorize", "compute",
     lambda: Vectorize(FillComputeSeq(ManySums(), Stamp()), dim=2), _vec),
    ("Count", "Count", "compute", lambda: Count(), _num),
    ("Count('n',count=3)", "Count", "compute", lambda: Count("n", count=3), _num),
    ("Histogram([0,2,4])", "Histogram", "compute", lambda: Histogram([0, 2, 4]), _num),
    ("Histogram(2d)", "Histogram", "compute", lambda: Histogram([[0, 2, 4], [0, 3, 6]]), _vec),
    ("SplitIntoBins(Sum())", "SplitIntoBins", "compute",
     lambda: SplitIntoBins(Sum(), Variable("x", lambda d: d), [0, 2, 4]), _num),
    ("SplitIntoBins((Variable,Sum))", "SplitIntoBins", "compute",
     lambda: SplitIntoBins(FillComputeSeq(Variable("sq", lambda d: d * d), Sum()), Variable("x", lambda d: d),
                           [0, 2, 4]), _num),
    ("SplitIntoBins(TwoSums(),2d)", "SplitIntoBins", "compute",
     lambda: SplitIntoBins(FillCompute(TwoSums()), Variable("xy", lambda d: d), [[0, 2, 9], [0, 9]]),
     lambda i: (i + 1, i + 2)),
    ("Graph", "Graph", "compute", lambda: Graph(), _pt),
    ("Graph(sort=False,scale=2)", "Graph", "compute", lambda: Graph(sort=False, scale=2), _pt_flat),
    ("NumpyHistogram(bins=[0,2,4])", "NumpyHistogram", "request", lambda: _np_hist(bins=[0, 2, 4]), _num),
    ("NumpyHistogram(reset=False)", "NumpyHistogram", "request", lambda: _np_hist(reset=False), _num),
    ("FillCompute(Sum())", "FillCompute", "compute", lambda: FillCompute(Sum()), _num),
    ("FillComputeSeq(Variable,Sum,UpdateContext)", "FillComputeSeq", "compute",
     lambda: FillComputeSeq(Variable("sq", lambda d: d * d), Sum(), lena.context.UpdateContext("a.b", "x")), _num),
    ("FillRequest(Sum(),bufsize=1)", "FillRequest", "request",
     lambda: FillRequest(Sum(), reset=True, buffer_input=True, bufsize=1), _num),
    ("FillRequest(Mean(),bufsize=2,no reset)", "FillRequest", "request",
     lambda: FillRequest(Mean(), reset=False, buffer_input=True, bufsize=2), _num),
    ("FillRequestSeq(FillRequest(Sum()))", "FillRequestSeq", "request",
     lambda: FillRequestSeq(FillRequest(Sum(), reset=True, buffer_input=True), reset=False, buffer_input=True), _num),
    # Count is not the last branch: the last branch receives the filled object itself and Count.compute is
    # documented to write its counter into the context of the last filled value
    ("Split([Count(),Sum()])", "Split", "compute", lambda: Split([FillCompute(Count()), Sum()]), _num),
    ("Split([Mean(),Sum(),Sum()])", "Split", "compute", lambda: Split([Mean(pass_on_empty=True), Sum(), Sum()]), _num),
    ("Split([FillRequest(Sum())x2])", "Split", "request",
     lambda: Split([FillRequest(Sum(), reset=True, buffer_input=True),
                    FillRequest(Sum(), reset=False, buffer_input=True)]), _num),
    ("Split([Vectorize(TwoSums()),Vectorize(Sum())])", "Split", "compute",
     lambda: Split([Vectorize(TwoSums(), dim=2), Vectorize(Sum(), dim=2)]), _vec),
    ("FillComputeSeq(Vectorize(ManySums()),Stamp)", "FillComputeSeq", "compute",
     lambda: FillComputeSeq(Vectorize(ManySums(), dim=2), Stamp()), _vec),
    ("Zip([Vectorize(TwoSums()),Vectorize(ManySums())])", "Zip", "compute",
     lambda: Zip([Vectorize(TwoSums(), dim=2), Vectorize([ManySums(), Sum()])]), _vec),
    ("Zip([Sum(),Mean()])", "Zip", "compute", lambda: Zip([Sum(), Mean(pass_on_empty=True)]), _num),
    ("Zip([Sum(),Count()],fields)", "Zip", "compute",
     lambda: Zip([Sum(), FillCompute(Count())], name="zp", fields=["s", "c"]), _num),
    ("Zip([FillRequest(Sum())x2])", "Zip", "request",
     lambda: Zip([FillRequest(Sum(), reset=True, buffer_input=True),
                  FillRequest(Sum(5), reset=False, buffer_input=True)]), _num),
]
ACC_BY_NAME = dict((a[0], a) for a in ACCS)

# elements documented to write into the context of the last filled value during compute (Count.compute docstring:
# "context is taken from the last filled value and is updated with {self.name: self.count}")
_COMPUTE_WRITES_FILLED_DOCUMENTED = ("Count",)


def mkvalue(i, gen, op):
    d = gen(i)
    if op == "B":
        return d
    if op == "E":
        return (d, {})
    # mutable objects also INSIDE tuples (lena itself builds such contexts: context.variable.combine, context.zip)
    return (d, {"c": {"i": i, "deep": {"z": [i]}}, "l": [i, [i]], "t": "v%d" % i,
                "variable": {"name": "v", "combine": ({"name": "x%d" % i}, {"name": "y", "range": [0, i]})}})


def _call(el, method, on_yield=None):
    """-> ("ok", [values]) | ("exc", type name); on_yield(k, value) is called for every value before the generator is
    resumed (values yielded before an exception are not reported: both the element and its twin are treated alike)"""
    try:
        with watchdog(2):
            if on_yield is None:
                return ("ok", list(getattr(el, method)()))
            out = []
            for y in getattr(el, method)():
                out.append(y)
                on_yield(len(out) - 1, y)
            return ("ok", out)
    except Timeout:
        return ("exc", "NON-TERMINATION")
    except lena.core.LenaException as e:
        return ("exc", type(e).__name__)
    except Exception as e:
        return ("exc", type(e).__name__)


def acc_history(name, hist):
    """Run one history; return a list of (fid, what).  ops: F fill (data, nested context), E fill (data, {}),
    B fill bare data, C compute/request, M mutate every context yielded so far, I compute/request consumed value by
    value, the context of every yielded value being mutated before the generator is resumed."""
    _, cls, method, factory, gen = ACC_BY_NAME[name]
    el = factory()
    twin = factory()
    bad = []
    filled = []          # the very objects that were filled (kept alive)
    twin_filled = []     # their deep copies that were filled into the twin
    yielded = []         # (position text, value, context object) of everything yielded so far (kept alive)
    identity_failed = False
    base = "%s.%s" % (cls, method)
    nfill = 0
    stamp = 0
    for pos, op in enumerate(hist):
        where = "%s, history %s, step %d" % (name, hist, pos)
        if op in "FEB":
            v = mkvalue(nfill, gen, op)
            nfill += 1
            filled.append(v)
            tv = copy.deepcopy(v)
            twin_filled.append(tv)
            r1 = r2 = None
            try:
                el.fill(v)
            except Exception as e:
                r1 = type(e).__name__
            try:
                twin.fill(tv)
            except Exception as e:
                r2 = type(e).__name__
            if r1 != r2 and not identity_failed:
                bad.append((base + "/later-fill-differs-after-mutation-of-yield",
                            "%s: fill raised %s, the twin that saw no mutation raised %s" % (where, r1, r2)))
        elif op in "CI":
            before = canon(filled)
            snaps = []           # op I: what each value looked like when it was yielded

            def touch(k, y):
                snaps.append(canon(y))
                c = ctx_of(y)
                if c is not None:
                    mutate_everything(c, "%di%d" % (pos, k))
            res = _call(el, method, touch if op == "I" else None)
            tres = _call(twin, method)
            after = canon(filled)
            if res == ("exc", "NON-TERMINATION"):
                bad.append((base + "/non-termination", "%s: %s() did not terminate" % (where, method)))
                break
            if op == "C" and before != after and cls not in _COMPUTE_WRITES_FILLED_DOCUMENTED:
                bad.append((base + "/writes-into-filled-value",
                            "%s: %s() itself changed the filled values (the stored context is the filled object)"
                            % (where, method)))
            if res[0] == "ok":
                for k, y in enumerate(res[1]):
                    c = ctx_of(y)
                    if c is None:
                        continue
                    rc = reach(c)
                    # clause 1: the contexts of the values that were filled
                    for fi, fv in enumerate(filled):
                        fc = ctx_of(fv)
                        if fc is None:
                            continue
                        if c is fc:
                            identity_failed = True
                            bad.append((base + "/yields-the-stored-context-object-itself",
                                        "%s: value #%d yielded by %s() carries the very context object of filled "
                                        "value #%d %s" % (where, k, method, fi, show(fv))))
                        else:
                            common = set(rc) & set(reach(fc))
                            if common:
                                identity_failed = True
                                o = [rc[i] for i in rc if i in common][0]
                                bad.append((base + "/yielded-context-shares-nested-object-with-filled-context",
                                            "%s: context of value #%d yielded by %s() shares %r with the context of "
                                            "filled value #%d" % (where, k, method, o, fi)))
                    # clause 2: contexts yielded earlier (earlier calls and earlier in this call)
                    for (ptxt, py, pc, ppos) in yielded:
                        if pc is None:
                            continue
                        same_call = ppos == pos
                        if c is pc:
                            identity_failed = True
                            bad.append((base + ("/one-context-object-yielded-twice-by-the-same-call" if same_call else
                                                "/yields-the-stored-context-object-itself"),
                                        "%s: value #%d yielded by %s() carries the very context object that was "
                                        "already yielded at %s" % (where, k, method, ptxt)))
                        else:
                            common = set(rc) & set(reach(pc))
                            if common:
                                identity_failed = True
                                o = [rc[i] for i in rc if i in common][0]
                                bad.append((base + "/yielded-context-shares-nested-object-with-earlier-yield"
                                            + ("-of-the-same-call" if same_call else ""),
                                            "%s: context of value #%d yielded by %s() shares %r with the context "
                                            "yielded at %s" % (where, k, method, o, ptxt)))
                    yielded.append(("step %d value #%d" % (pos, k), y, c, pos))
            # behavioural consequence, only where the identity graph found nothing (objects it cannot see)
            if not identity_failed:
                got = res[1] if res[0] == "exc" else (snaps if op == "I" else [canon(y) for y in res[1]])
                want = tres[1] if tres[0] == "exc" else [canon(y) for y in tres[1]]
                if res[0] != tres[0] or got != want:
                    # is the damage done by a mutation made during this very call?
                    within = (op == "I" and res[0] == tres[0] == "ok" and len(got) == len(want) and got[0] == want[0])
                    bad.append((base + ("/later-yield-corrupted-by-mutation-of-earlier-yield-of-the-same-call" if within
                                        else "/later-result-corrupted-by-mutation-of-earlier-yield"),
                                "%s: %s() gave %s, a twin element that never saw the mutation gave %s"
                                % (where, method, show(got if op == "I" and res[0] == "ok" else res[1]),
                                   show(tres[1]))))
                if op == "I" and canon(filled) != canon(twin_filled):
                    bad.append((base + "/source-corrupted-by-mutation-of-yield",
                                "%s: mutating the contexts while they were yielded changed the filled values" % where))
        elif op == "M":
            before = canon(filled)
            stamp += 1
            for (_, _, c, _) in yielded:
                if c is not None:
                    mutate_everything(c, stamp)
            if canon(filled) != before and not identity_failed:
                bad.append((base + "/source-corrupted-by-mutation-of-yield",
                            "%s: mutating the yielded contexts changed the filled values" % where))
    return bad


def valid_history(h):
    """at least one compute; a mutation only after something may have been yielded; no trailing fills/mutations
    (they cannot be observed)"""
    h = h.replace("I", "C")     # I is a compute/request too (and an observation)
    if "C" not in h or h[-1] != "C" and not (h[-1] == "M" and "C" in h[:-1]):
        return False
    seen_c = False
    prev = ""
    for op in h:
        if op == "M" and (not seen_c or prev == "M"):
            return False
        if op == "C":
            seen_c = True
        prev = op
    return True


def replay_acc(name, hist, fid):
    return any(f == fid for f, _ in acc_history(name, hist))


# ------------------------------------------------------------------------------------- part B: Split / Zip
class Probe(object):
    """records (where, snapshot at the time of the call, the object itself) and passes the value on"""

    def __init__(self, log, where):
        self.log = log
        self.where = where

    def __call__(self, value):
        self.log.append((self.where, canon(value), value))
        return value


def user_mutator(tag):
    def mutate(value):
        data, context = lena.flow.get_data_context(value)
        data.append(tag)
        context.setdefault("l", []).append(tag)
        context.setdefault("c", {})["m" + tag] = 1
        return (data, context)
    return mutate


def _mutating(kind, t):
    if kind == "mut":
        return user_mutator(t)
    if kind == "var":
        return Variable("v" + t, lambda d: d, type="ty" + t)
    if kind == "upd":
        return lena.context.UpdateContext("upd", "{{t}}-" + t)
    if kind == "updrec":
        return lena.context.UpdateContext("c", {"r" + t: 1}, recursively=True)
    if kind == "mkfn":
        return lena.output.MakeFilename("f" + t + "_{{t}}")
    if kind == "count":
        return Count("n" + t)
    raise ValueError(kind)


# kind -> type; every branch is [probe in] mutator [accumulator] [probe out]
SEQ_KINDS = ["S:mut", "S:var", "S:upd", "S:updrec", "S:mkfn", "S:count"]
FC_KINDS = ["FC:mut;store", "FC:var;lensum", "FC:count;storeeach", "FC:upd;mkfn;hist", "FC:mut;vmc"]
FC_STOP_KINDS = ["FC:slice2;mut;store"]
FR_KINDS = ["FR:mut;store", "FR:var;count;sum2"]
SRC_KINDS = ["SRC:count2"]
# branches that change the value in place and THEN stop: "<FC|FR>:<mutating element>;slice<K>;<store|sum>" fills the
# values #0..#K-1 and raises LenaStopFill on value #K, which its mutating element has already updated in place
_STOP_RE = re.compile(r"^(FC|FR):(mut|var|upd|updrec|mkfn|count);slice(\d+);(store|sum)$")


def stop_kinds(types, muts, ks, acc="store"):
    return ["%s:%s;slice%d;%s" % (t, m, k, acc) for t in types for m in muts for k in ks]


def build_branch(kind, j, log):
    t = str(j)
    pin = Probe(log, "in")
    pout = Probe(log, "out")
    if kind.startswith("S:"):
        return Sequence(pin, _mutating(kind[2:], t), pout)
    if kind == "FC:mut;store":
        return FillComputeSeq(pin, user_mutator(t), StoreFilled(), pout)
    if kind == "FC:var;lensum":
        return FillComputeSeq(pin, _mutating("var", t), Probe(log, "mid"), Variable("len" + t, len), Sum(), pout)
    if kind == "FC:count;storeeach":
        return FillComputeSeq(pin, Count("n" + t), StoreFilled(yield_as_a_group=False), pout)
    if kind == "FC:upd;mkfn;hist":
        return FillComputeSeq(pin, _mutating("upd", t), _mutating("mkfn", t), Probe(log, "mid"),
                              Variable("len" + t, len), Histogram([0, 2, 4]), pout)
    if kind == "FC:mut;vmc":
        return FillComputeSeq(pin, user_mutator(t), Probe(log, "mid"), Variable("len" + t, len),
                              VarianceMeanCount(corrected=False, pass_on_empty=True), pout)
    if kind == "FC:slice2;mut;store":
        return FillComputeSeq(Slice(2), pin, user_mutator(t), StoreFilled(), pout)
    if kind == "FR:mut;store":
        return FillRequestSeq(pin, user_mutator(t), FillRequest(StoreFilled(), reset=True, buffer_input=True),
                              pout, reset=False, buffer_input=True)
    if kind == "FR:var;count;sum2":
        return FillRequestSeq(pin, _mutating("var", t), Count("n" + t), Probe(log, "mid"), Variable("len" + t, len),
                              FillRequest(Sum(), reset=True, buffer_input=True, bufsize=2),
                              pout, reset=False, buffer_input=True)
    if kind == "SRC:count2":
        return Source(CountFrom(0), Slice(2), pout)
    m = _STOP_RE.match(kind)
    if m:
        typ, mut, k, acc = m.group(1), m.group(2), int(m.group(3)), m.group(4)
        mel = _mutating(mut, t)
        if mut == "count":
            # a bare Count would be taken for the accumulator of a FillComputeSeq
            mel = lena.core.FillInto(mel)
        if typ == "FC":
            tail = [StoreFilled()] if acc == "store" else [Variable("len" + t, len), Sum()]
            return FillComputeSeq(pin, mel, Slice(k), Probe(log, "mid"), *(tail + [pout]))
        tail = [StoreFilled()] if acc == "store" else [Variable("len" + t, len), Sum()]
        tail[-1] = FillRequest(tail[-1], reset=True, buffer_input=True)
        return FillRequestSeq(pin, mel, Slice(k), Probe(log, "mid"), *(tail + [pout]),
                              **{"reset": False, "buffer_input": True})
    raise ValueError(kind)


def mkflow(n):
    """values without pre-existing aliasing: every value has its own data list and nested context"""
    return [([i], {"t": "v%d" % i, "c": {"i": i}, "l": [i]}) for i in range(n)]


def _drive(driver, kinds, js, bufsize, script):
    """Drive the real Split/Zip (or one bare branch when driver == 'alone-fill') and return
    (outcome text, {j: log}, flow objects).  script: an int flow length for 'run', an op string of f/c otherwise."""
    logs = dict((j, []) for j in js)
    branches = [build_branch(k, j, logs[j]) for k, j in zip(kinds, js)]
    outcome = []
    flow = mkflow(script if driver == "run" else script.count("f"))
    try:
        with watchdog(5):
            if driver == "run":
                sp = Split(branches, bufsize=bufsize)
                out = list(sp.run(iter(flow)))
                outcome.append("ok:%d" % len(out))
            else:
                if driver == "split-fill":
                    el = Split(branches)
                elif driver == "zip-fill":
                    el = Zip(branches)
                else:
                    el = branches[0]
                meth = "compute" if hasattr(el, "compute") else "request"
                held = []
                it = iter(flow)
                for n, op in enumerate(script):
                    for j in js:
                        logs[j].append(("op", n, None))
                    if op == "f":
                        el.fill(next(it))
                    else:
                        held.append(list(getattr(el, meth)()))
                outcome.append("ok")
                logs["_held"] = held
    except Timeout:
        outcome.append("NON-TERMINATION")
    except Exception as e:
        outcome.append("exc:" + type(e).__name__)
    return outcome[0], logs, flow


_alone_cache = {}


def _alone(driver, kind, j, bufsize, script):
    key = (driver, kind, j, bufsize, script)
    if key not in _alone_cache:
        if driver == "run":
            outcome, logs, flow = _drive("run", [kind], [j], bufsize, script)
        else:
            outcome, logs, flow = _drive("alone-fill", [kind], [j], None, script)
        _alone_cache[key] = (outcome, [(w, s, canon(v)) for (w, s, v) in logs[j]])
    return _alone_cache[key]


def _segments(records):
    """split a log at the ("op", n, ..) markers written by the fill-driven drivers"""
    segs = [[]]
    for r in records:
        if r[0] == "op":
            segs.append([])
        else:
            segs[-1].append(r)
    return segs


def _align(got, alone, zipped, fr, script):
    """Pair the records (where, snapshot, final) of a branch inside Split/Zip with those of the branch alone.
    Returns (pairs, text of a structural mismatch or None).
    Split: same records.  Zip stops at the shortest branch and never resumes the generators of the other branches
    (documented: "stop on shortest"), so inside Zip a branch may produce only a prefix of its own results of one
    compute(); a request() generator that is not resumed does not reach its reset, so with FillRequest branches only
    the results up to the first request() are comparable.  What a branch does on the fill side is always compared."""
    pairs = []
    gs, as_ = _segments(got), _segments(alone)
    if len(gs) != len(as_):
        return pairs, "a different number of steps was executed"
    requested = False
    for n, (g, a) in enumerate(zip(gs, as_)):
        g_in = [r for r in g if r[0] != "out"]
        a_in = [r for r in a if r[0] != "out"]
        if len(g_in) != len(a_in):
            return pairs, "step %d: %d records before the accumulator, alone %d" % (n, len(g_in), len(a_in))
        pairs.extend(zip(g_in, a_in))
        g_out = [r for r in g if r[0] == "out"]
        a_out = [r for r in a if r[0] == "out"]
        if zipped and fr and requested:
            continue
        if n >= 1 and script[n - 1] == "c":
            requested = True      # a generator that Zip never started or resumed leaves the branch in another state
        if (len(g_out) > len(a_out)) if zipped else (len(g_out) != len(a_out)):
            return pairs, "step %d: %d results, alone %d" % (n, len(g_out), len(a_out))
        pairs.extend(zip(g_out, a_out))
    return pairs, None


def _stops(kind, length):
    """does this branch raise LenaStopFill when Split.run feeds it a flow of this length?"""
    m = _STOP_RE.match(kind)
    return (int(m.group(3)) < length) if m else (kind in FC_STOP_KINDS and length > 2)


def split_case(driver, kinds, bufsize, script):
    """-> list of (fid, what).  Interference seen next to a branch that has stopped gets its own fids (suffix
    -next-to-a-stopped-branch): handing on what a stopped branch consumed is another defect than a missing copy."""
    kinds = list(kinds)
    js = list(range(len(kinds)))
    stopped = [driver == "run" and _stops(k, script) for k in kinds]

    def sfx(*own):
        return "-next-to-a-stopped-branch" if any(s for j, s in enumerate(stopped) if j not in own) or \
            (len(own) > 1 and any(stopped[j] for j in own)) else ""
    fr = all(k.startswith("FR:") for k in kinds)
    if driver == "run":
        base = "Split.run"
    elif driver == "split-fill":
        base = "Split.fill+request" if fr else "Split.fill+compute"
    else:
        base = "Zip.fill+request" if fr else "Zip.fill+compute"
    where = "%s over branches %s, bufsize %r, %s %r" % (base, kinds, bufsize,
                                                        "flow length" if driver == "run" else "script", script)
    bad = []
    outcome, logs, flow = _drive(driver, kinds, js, bufsize, script)
    if outcome == "NON-TERMINATION":
        return [(base + "/non-termination", where + ": did not terminate")]
    pristine = [canon(v) for v in mkflow(len(flow))]
    alone_out = []
    for k, j in zip(kinds, js):
        a_outcome, a_log = _alone(driver, k, j, bufsize, script)
        alone_out.append(a_outcome)
        got = [(w, s, canon(v)) for (w, s, v) in logs[j]]
        # what arrived at the entry of the branch: the pristine flow values, in order
        ins = [s for (w, s, _) in got if w == "in"]
        if outcome.startswith("ok"):
            exp_ins = pristine[:len(ins)]
            if ins != exp_ins:
                n = [x != y for x, y in zip(ins, exp_ins)].index(True)
                bad.append((base + "/branch-input-already-modified-by-another-branch" + sfx(j),
                            "%s: branch %d received %r where the flow value is %r" % (where, j, ins[n], exp_ins[n])))
                continue
        if a_outcome.split(":")[0] != outcome.split(":")[0]:
            continue    # reported once below
        pairs, mismatch = _align(got, a_log, driver == "zip-fill", fr, script)
        d = [g[:2] != a[:2] for g, a in pairs]
        if True in d:
            g, a = pairs[d.index(True)]
            bad.append((base + "/branch-result-differs-from-branch-alone" + sfx(j),
                        "%s: branch %d record #%d is %r, alone on a private copy of the flow it is %r"
                        % (where, j, d.index(True), g[:2], a[:2])))
        elif mismatch:
            bad.append((base + "/branch-result-differs-from-branch-alone",
                        "%s: branch %d: %s" % (where, j, mismatch)))
        else:
            d = [g[2] != a[2] for g, a in pairs]
            if True in d:
                g, a = pairs[d.index(True)]
                bad.append((base + "/branch-value-modified-after-the-branch-produced-it" + sfx(),
                            "%s: branch %d record #%d (%s) ended as %r, alone it ends as %r"
                            % (where, j, d.index(True), g[0], g[2], a[2])))
    # outcome: with Split every branch alone must end the same way as the whole (exceptions are not C04's subject,
    # but a branch failing only inside the Split is interference)
    if not outcome.startswith("ok") and all(a.startswith("ok") for a in alone_out):
        bad.append((base + "/raises-only-when-branches-are-combined",
                    "%s: %s, every branch alone runs to the end" % (where, outcome)))
    # identity graphs of different branches are disjoint
    reaches = []
    for j in js:
        r = {}
        for (_, _, v) in logs[j]:
            reach(v, r)
        reaches.append(r)
    for a in range(len(js)):
        for b in range(a + 1, len(js)):
            common = set(reaches[a]) & set(reaches[b])
            if common:
                o = [reaches[a][i] for i in reaches[a] if i in common][0]
                bad.append((base + "/branches-share-a-mutable-object" + sfx(a, b),
                            "%s: branches %d and %d both hold the object %r" % (where, a, b, o)))
    return bad


def replay_split(driver, kinds, bufsize, script, fid):
    _alone_cache.clear()
    return any(f == fid for f, _ in split_case(driver, kinds, bufsize, script))


# --------------------------------------------------------------------------------------------------- body
def _report(R, bad, replay_fn, args, witness):
    seen = set()
    for fid, what in bad:
        if fid in seen:
            continue
        seen.add(fid)
        R.fail(fid, what, witness, {"fn": replay_fn, "args": list(args) + [fid]})


def body(R):
    rng = R.rng
    # ------------------------------------------------------------------ A
    maxlen = 5 if R.thorough else 4

    def all_hists(alphabet, n):
        return [h for h in ("".join(t) for k in range(1, n + 1) for t in itertools.product(alphabet, repeat=k))
                if valid_history(h)]
    hists = all_hists("FEBCM", maxlen)
    hists_i = [h for h in all_hists("FEBCMI" if R.thorough else "FCMI", maxlen) if "I" in h]
    hists_i_short = [h for h in all_hists("FEBCMI", maxlen - 1) if "I" in h]
    hists_i = hists_i_short + [h for h in hists_i if h not in set(hists_i_short)]
    # where one value is yielded per call, I is the same as C followed by M: a few short histories only
    hists_i_single = [h for h in hists_i_short if len(h) <= 2]
    multi = [a[0] for a in ACCS if any(w in a[0] for w in ("TwoSums", "ManySums", "Split(", "Zip("))]
    R.scope("accumulators: %d configurations of Sum, DSum, Mean, VarianceMeanCount, Vectorize, Count, Histogram, "
            "SplitIntoBins, Graph, NumpyHistogram, FillCompute, FillComputeSeq, FillRequest, FillRequestSeq, "
            "Split, Zip (compute / request); %d of them yield 2..3 values per call (multi-valued sums inside Mean / "
            "Vectorize / SplitIntoBins, Vectorize over a Split, Split / Zip of accumulators and of Vectorize)"
            % (len(ACCS), len(multi)),
            "all histories of length <= %d over {F fill (data, nested context), E fill (data, {}), B fill bare data, "
            "C compute/request, M mutate every object reachable from every context yielded so far} that end in an "
            "observation (%d histories per configuration), plus all such histories that contain I = compute/request "
            "consumed value by value with every yielded context mutated before the generator is resumed: for the "
            "several-values-per-call configurations length <= %d, and length %d%s (%d histories in all), for the "
            "others, where I is the same as C followed by M, length <= 2 (%d histories); "
            "identity graph of each yielded context vs every filled context and every earlier yield (of earlier "
            "calls and of the same call); twin element without mutations"
            % (maxlen, len(hists), maxlen - 1, maxlen, "" if R.thorough else " over {F,C,M,I}", len(hists_i),
               len(hists_i_single)), True)
    for acc in ACCS:
        name = acc[0]
        for h in hists + (hists_i if name in multi else hists_i_single):
            bad = acc_history(name, h)
            R.case("F" in h or "E" in h, {"accumulator": name, "history": h})
            _report(R, bad, "replay_acc", [name, h], {"accumulator": name, "history": h})
    if R.thorough:
        core = [a[0] for a in ACCS if a[1] not in ("FillCompute", "FillComputeSeq", "FillRequest", "FillRequestSeq",
                                                   "Split", "Zip")]
        h6 = ["".join(h) for h in itertools.product("FEBCM", repeat=6) if valid_history("".join(h))]
        R.scope("accumulators: the %d configurations of the elements themselves (no adapters, Split, Zip)" % len(core),
                "all %d histories of length exactly 6 over {F,E,B,C,M} that end in an observation" % len(h6), True)
        for name in core:
            for h in h6:
                bad = acc_history(name, h)
                R.case("F" in h or "E" in h, {"accumulator": name, "history": h})
                _report(R, bad, "replay_acc", [name, h], {"accumulator": name, "history": h})
    nrand = 6000 if R.thorough else 600
    R.scope("accumulators (same configurations)",
            "%d random histories of length 6..12 over {F,E,B,C,M,I} (fills weighted 2:1:1, C 3, M 2, I 2)" % nrand,
            False)
    for _ in range(nrand):
        name = rng.choice(ACCS)[0]
        while True:
            h = "".join(rng.choice("FFEBCCCMMII") for _ in range(rng.randint(6, 12)))
            h = h.rstrip("FEB")
            while "MM" in h:
                h = h.replace("MM", "M")
            if valid_history(h):
                break
        bad = acc_history(name, h)
        R.case(True, {"accumulator": name, "history": h})
        _report(R, bad, "replay_acc", [name, h], {"accumulator": name, "history": h})

    # ------------------------------------------------------------------ B: Split.run
    run_kinds = SEQ_KINDS + FC_KINDS + FC_STOP_KINDS + FR_KINDS + SRC_KINDS
    bufsizes = [1, 2, 3, None]
    lengths = [0, 1, 2, 3, 5]

    def do(driver, kinds, bufsize, script):
        bad = split_case(driver, kinds, bufsize, script)
        R.case(len(kinds) > 1 and script not in (0, "", "c"),
               {"driver": driver, "branches": list(kinds), "bufsize": bufsize, "script": script})
        _report(R, bad, "replay_split", [driver, list(kinds), bufsize, script],
                {"driver": driver, "branches": list(kinds), "bufsize": bufsize, "script": script})

    R.scope("Split.run, copy_buf=True",
            "all ordered pairs of %d branch kinds (Sequence / FillComputeSeq / FillRequestSeq / Source branches whose "
            "elements mutate data and context in place: user mutator, Variable, UpdateContext (plain and "
            "recursively), MakeFilename, Count.run, Count.fill_into, Slice raising LenaStopFill), bufsize in "
            "{1,2,3,None}, flow lengths {0,1,2,3,5}; probes at entry/exit of each branch vs the branch alone in "
            "Split([branch], bufsize) on a fresh flow, vs the pristine flow, identity graphs of branches disjoint"
            % len(run_kinds), True)
    for kinds in itertools.product(run_kinds, repeat=2):
        for b in bufsizes:
            for L in lengths:
                do("run", kinds, b, L)
    if R.thorough:
        R.scope("Split.run, copy_buf=True", "all ordered triples of the %d branch kinds, bufsize in {1,2,None}, "
                "flow lengths {0,2,3}" % len(run_kinds), True)
        for kinds in itertools.product(run_kinds, repeat=3):
            for b in (1, 2, None):
                for L in (0, 2, 3):
                    do("run", kinds, b, L)
    # ------------------------------------------------------------------ B: Split.run, branches that stop
    # A branch whose in-place mutator stands BEFORE a Slice(K) has already changed value #K (and #0..#K-1) of its
    # private copy of the block when it raises LenaStopFill.  Nothing of that copy may reach another branch: the
    # stopping branch stands at every position, K and bufsize range over "first / middle / last value of a block,
    # first / later block", the flow ends with the stopping value or goes on for another block.
    if R.thorough:
        st_ks, st_bufs = list(range(5)), [1, 2, 3, 4, None]
        stoppers = (stop_kinds(("FC", "FR"), ("mut",), st_ks, "store") + stop_kinds(("FC", "FR"), ("var",), st_ks, "sum")
                    + stop_kinds(("FC", "FR"), ("count",), st_ks[:3], "store"))
        victims = ["S:mut", "FC:mut;store", "FR:mut;store", "S:var", "FC:var;lensum", "SRC:count2"]
        victims4 = victims[:2]
    else:
        st_ks, st_bufs = list(range(4)), [1, 2, 3, None]
        stoppers = stop_kinds(("FC", "FR"), ("mut",), st_ks, "store")
        victims = ["S:mut", "FC:mut;store", "FR:mut;store"]
        victims4 = victims[1:2]

    def stop_k(kind):
        return int(_STOP_RE.match(kind).group(3))

    def stop_lengths(k, b):
        ls = [k + 1, k + 1 + (b or 2)]
        if R.thorough:
            ls.insert(1, k + 2)
        return ls
    stop_lists = []
    for st in stoppers:
        for v in victims:
            stop_lists += [(st, v), (v, st)]
        for v1, v2 in itertools.product(victims, victims[:3]):
            stop_lists += [(st, v1, v2), (v1, st, v2)]
        for v in victims:
            stop_lists.append((v, v, st))
        for v in victims4:
            for pos in range(4):
                stop_lists.append((v,) * pos + (st,) + (v,) * (3 - pos))
    R.scope("Split.run, copy_buf=True, a branch stops (LenaStopFill) after it has changed the values in place",
            "%d branch lists: one stopping branch <FillComputeSeq|FillRequestSeq>(probe, in-place mutator (%s), "
            "Slice(K), accumulator), K in %r, at every position of lists of length 2 and 3 (other branches: all "
            "choices from %r, the last one from the first three; stopping branch last: two equal ones) and of length "
            "4 (others: three equal ones from %r); bufsize in %r "
            "(the stop falls on the first / a middle / the last value of a block, in the first or a later block); flow "
            "lengths %s; every branch vs the branch alone, vs the pristine flow, identity graphs disjoint"
            % (len(stop_lists), "user mutator, Variable, Count.fill_into for K <= 2" if R.thorough else "user mutator", st_ks,
               victims, victims4, st_bufs,
               "K+1 (the stopping value is the last one), K+2, K+1+bufsize (K+3 for None)" if R.thorough else
               "K+1 (the stopping value is the last one), K+1+bufsize (K+3 for None)"), True)
    for kinds in stop_lists:
        k = max(stop_k(x) for x in kinds if _STOP_RE.match(x))
        for b in st_bufs:
            for L in stop_lengths(k, b):
                do("run", kinds, b, L)
    two_ks = st_ks[:4] if R.thorough else st_ks[:3]
    two_lists = []
    for t1, t2 in (itertools.product(("FC", "FR"), repeat=2) if R.thorough else [("FC", "FC"), ("FR", "FC")]):
        for k1, k2 in itertools.product(two_ks, repeat=2):
            a, b_ = stop_kinds((t1,), ("mut",), [k1])[0], stop_kinds((t2,), ("mut",), [k2])[0]
            for v in victims[1:3] if R.thorough else victims[1:2]:
                two_lists += [(a, b_, v, v), (a, v, b_, v)]
    R.scope("Split.run, copy_buf=True, two branches stop after they have changed the values in place",
            "%d branch lists [stop K1, stop K2, v, v] and [stop K1, v, stop K2, v], K1, K2 in %r (both stop on the same "
            "value, in the same block, in different blocks), v in %r; bufsize in %r; flow lengths max(K)+1, "
            "max(K)+1+bufsize" % (len(two_lists), two_ks, victims[1:3] if R.thorough else victims[1:2], st_bufs), True)
    for kinds in two_lists:
        k = max(stop_k(x) for x in kinds if _STOP_RE.match(x))
        for b in st_bufs:
            for L in (k + 1, k + 1 + (b or 2)):
                do("run", kinds, b, L)
    nrand = 3000 if R.thorough else 500
    R.scope("Split.run, copy_buf=True", "%d random branch lists of length 1..5 (each branch with probability 0.3 a "
            "stopping one: in-place mutator from {user mutator, Variable, UpdateContext, MakeFilename, Count} before "
            "Slice(K), K in 0..6), bufsize in {1,2,3,4,7,1000,None}, flow length 0..7" % nrand, False)
    rand_stop = stop_kinds(("FC", "FR"), ("mut", "var", "upd", "updrec", "mkfn", "count"), range(7), "store") \
        + stop_kinds(("FC", "FR"), ("mut", "var", "count"), range(7), "sum")
    for _ in range(nrand):
        kinds = [rng.choice(rand_stop) if rng.random() < 0.3 else rng.choice(run_kinds)
                 for _ in range(rng.randint(1, 5))]
        do("run", kinds, rng.choice([1, 2, 3, 4, 7, 1000, None]), rng.randint(0, 7))

    # ------------------------------------------------------------------ B: fill-driven
    scripts = []
    for n in range(1, 6 if R.thorough else 5):
        for s in itertools.product("fc", repeat=n):
            s = "".join(s)
            if s.endswith("c") and "f" in s:
                scripts.append(s)
    for driver, label in (("split-fill", "Split"), ("zip-fill", "Zip")):
        for group, gname, meth in ((FC_KINDS, "FillComputeSeq", "compute"), (FR_KINDS, "FillRequestSeq", "request")):
            maxn = 3 if (R.thorough or len(group) <= 2) else 2
            R.scope("%s.fill + %s.%s" % (label, label, meth),
                    "all branch lists of length 1..%d over the %d %s branch kinds, all scripts of fill/%s of length "
                    "<= %d that contain a fill and end in %s (%d scripts)"
                    % (maxn, len(group), gname, meth, len(scripts[-1]), meth, len(scripts)), True)
            for n in range(1, maxn + 1):
                for kinds in itertools.product(group, repeat=n):
                    for s in scripts:
                        do(driver, kinds, None, s)
            if maxn < 3:
                # a copy shared by the branches that are not the last one needs three branches to be seen
                sub = group[:3]
                R.scope("%s.fill + %s.%s" % (label, label, meth),
                        "all branch lists of length 3 over the %s branch kinds %r, the same %d scripts"
                        % (gname, sub, len(scripts)), True)
                for kinds in itertools.product(sub, repeat=3):
                    for s in scripts:
                        do(driver, kinds, None, s)
    nrand = 1500 if R.thorough else 200
    R.scope("Split/Zip fill-driven", "%d random branch lists of length 2..5 of one type, random scripts of fill/"
            "compute-or-request of length 3..10" % nrand, False)
    for _ in range(nrand):
        group = rng.choice([FC_KINDS, FC_KINDS, FR_KINDS])
        kinds = [rng.choice(group) for _ in range(rng.randint(2, 5))]
        s = "f" + "".join(rng.choice("ffc") for _ in range(rng.randint(1, 8))) + "c"
        do(rng.choice(["split-fill", "zip-fill"]), kinds, None, s)


if __name__ == "__main__":
    R = Run("C04", {"replay_acc": replay_acc, "replay_split": replay_split})
    sys.exit(R.main(body, "exhaustive small histories/branch lists plus seeded random ones; a case is non-trivial when "
                          "at least one value with a context was filled (accumulators) or at least two branches "
                          "received a non-empty flow (Split/Zip); distinct by construction of the enumeration"))
