"""C11 bounded stand-in: SplitIntoBins / IterateBins / MapBins / md_map / _MdSeqMap against the property's reference.

Reference (written from the property text, independent of split_into_bins.py):
  * the cell of a value is, per axis, (number of edges <= coordinate) - 1 (bisect); a value belongs to a cell iff
    every axis index is in [0, len(edges_axis)-2]; the upper border and everything outside belong to no cell;
  * the result of a cell is what a FRESHLY BUILT private sequence (same factory, never the object given to
    SplitIntoBins) computes from deep copies of that cell's sub-flow in arrival order;
  * the k-th yielded value is a histogram over the given edges whose cell idx holds the k-th result of cell idx;
    context.variable is the argument variable's own description (var_context);
  * outside values are ignored: removing them from the flow changes nothing that is yielded;
  * IterateBins: every cell exactly once, context.bin.edges are that cell's ((low, high), ...) and the context is the
    cell's own one (not shared with another cell); MapBins: same edges and shape, cell k-th = k-th result of a private
    copy of the sequence run on [cell].
Values carry a unique tag, so order and attribution are visible in the results.

Reading decisions:
  * DESIGN section 6 row 20 (a compute() that is not preceded by an in-range fill — e.g. the second request of
    FillRequest(SplitIntoBins(..), reset=False) after an outside value — adds compose: [type, type, ...] of a typed
    argument variable to context.variable) IS counted against the clause "with context.variable describing the argument
    variable": the yielded description is that of a composition arg o arg which does not exist.  It has its own id
    (.../context.variable-nests-compose-of-itself), distinct from any other wrong context.variable.
  * nothing is demanded of the other keys of the yielded context, of the order in which IterateBins enumerates the
    cells, or of MapBins' context; when the flow values already carry a context.variable only the argument variable's
    own keys are compared (composition rules are C14's); when a cell's private analysis raises on its sub-flow (Mean
    of nothing) the same exception from compute() is the expected behaviour; the number of histograms is the number
    of results of the cell that yields fewest (only those hold a result of every cell)."""
import bisect
import copy
import itertools
import math
import os
import sys
sys.path.insert(0, os.path.dirname(os.path.dirname(os.path.abspath(__file__))))
from bounded.common import Run, watchdog, Timeout

import lena.core
import lena.flow
import lena.math
from lena.core import FillComputeSeq, Sequence, FillCompute
from lena.flow import get_data, get_context, get_data_context, StoreFilled, Count
from lena.math import Sum, Mean, md_map
from lena.structures import SplitIntoBins, IterateBins, MapBins, Histogram, histogram
from lena.structures.split_into_bins import _MdSeqMap
from lena.variables import Variable, Combine


# --------------------------------------------------------------------------- inner analyses (harness-owned elements)
class TagPre(object):
    """Call element with private state; mutates the context of the value IN PLACE."""

    def __init__(self):
        self.n = 0

    def __call__(self, value):
        d, c = get_data_context(value)
        self.n += 1
        c["nth_in_cell"] = self.n
        c.setdefault("trail", []).append(d[2])
        return (d, c)


class DupFilter(object):
    """FillInto element: drops tags = 0 mod 3, duplicates tags = 1 mod 3 (several / no fills per value)."""

    def fill_into(self, element, value):
        t = get_data(value)[2]
        if t % 3 == 0:
            return
        element.fill(value)
        if t % 3 == 1:
            element.fill(copy.deepcopy(value))


class Collect(object):
    """FillCompute accumulator: remembers everything filled, yields *nres* results."""

    def __init__(self, nres=1):
        self.vals = []
        self.nres = nres
        self.ncomp = 0

    def fill(self, value):
        self.vals.append(copy.deepcopy(value))

    def compute(self):
        self.ncomp += 1
        ctx = copy.deepcopy(get_context(self.vals[-1])) if self.vals else {}
        for k in range(self.nres):
            c = copy.deepcopy(ctx)
            c["result"] = k
            yield ({"k": k, "filled": copy.deepcopy(self.vals), "n": len(self.vals)}, c)


class PostMut(object):
    """Call element after the accumulator; mutates the result's context in place, private counter."""

    def __init__(self):
        self.n = 0

    def __call__(self, value):
        d, c = get_data_context(value)
        self.n += 1
        c["post_n"] = self.n
        return (d, c)


class DupRun(object):
    """Run element after the accumulator: two results for each one."""

    def run(self, flow):
        for v in flow:
            d, c = get_data_context(v)
            yield (("first", d), copy.deepcopy(c))
            yield (("second", d), copy.deepcopy(c))


def _tag(v):
    return (get_data(v)[2], get_context(v))


def _x(v):
    return (get_data(v)[0], get_context(v))


def _tag2z(v):
    c = get_context(v)
    c["z"] = 1
    return (get_data(v)[2] * 2, c)


def _post(v):
    return ("post", v)


ANALYSES = {
    # bare accumulator (SplitIntoBins converts it)
    "collect": lambda: Collect(),
    "collect3": lambda: Collect(3),
    "store": lambda: StoreFilled(),
    # pre / accumulator / post
    "sum": lambda: FillComputeSeq(_tag, Sum()),
    "pre-sum-post": lambda: FillComputeSeq(_tag2z, Sum(), _post),
    "mean": lambda: FillComputeSeq(_tag, Mean()),
    "count": lambda: FillComputeSeq(FillCompute(Count())),
    # context-mutating and stateful elements
    "mutctx": lambda: FillComputeSeq(TagPre(), Collect(2), PostMut()),
    "var-mutctx": lambda: FillComputeSeq(TagPre(), Variable("x", lambda d: d[0], type="coordinate"), Collect(), PostMut()),
    "dupfilter": lambda: FillComputeSeq(DupFilter(), TagPre(), Collect(), DupRun(), PostMut()),
    # histogram in every cell (for IterateBins)
    "hist": lambda: FillComputeSeq(_x, Histogram([-2, 0, 1, 2, 5])),
}
AN_NAMES = sorted(ANALYSES)


def _vx():
    return Variable("x", lambda d: d[0])


def _vy():
    return Variable("y", lambda d: d[1], type="coord", unit="cm")


ARGVARS = {
    1: {
        "plain1": lambda: Variable("arg", lambda d: d[0]),
        "typed1": lambda: Variable("arg", lambda d: d[0], type="coord", unit="m"),
        "second1": lambda: Variable("argy", lambda d: d[1], latex_name="y"),
    },
    2: {
        "plain2": lambda: Variable("xy", lambda d: (d[0], d[1])),
        "list2": lambda: Variable("xy", lambda d: [d[0], d[1]], type="point"),
        "combine2": lambda: Combine(_vx(), _vy(), name="xy"),
        "swapped2": lambda: Combine(_vy(), _vx(), name="yx"),
    },
}
# which data fields each argument variable reads, per axis
ARGFIELDS = {"plain1": (0,), "typed1": (0,), "second1": (1,), "plain2": (0, 1), "list2": (0, 1), "combine2": (0, 1),
             "swapped2": (1, 0)}


# --------------------------------------------------------------------------- helpers
HANGS = [0]
CAP = 200           # no compute()/run() in these scopes yields more than a handful of values


class TooManyHangs(BaseException):
    pass


def guarded(fn, *args):
    """run the real code under a watchdog; a first timeout may be a stall of a busy machine (the timer is wall
    clock), so the deterministic call is repeated once with a longer limit — only a second timeout is a hang.
    After two confirmed hangs there is no second chance any more, after twelve the run is aborted."""
    if HANGS[0] >= 12:
        raise TooManyHangs()
    limit = 2
    if HANGS[0] < 2:
        try:
            with watchdog(2):
                return fn(*args)
        except Timeout:
            pass
        limit = 8
    try:
        with watchdog(limit):
            return fn(*args)
    except Timeout:
        HANGS[0] += 1
        raise


def take(gen):
    """materialise at most CAP values (an endless generator shows up as a wrong number of results, not as a hang)"""
    return list(itertools.islice(gen, CAP))


def mkvalue(item):
    x, y, tag, ctx = item
    data = (x, y, tag)
    return data if ctx is None else (data, copy.deepcopy(ctx))


def axes(edges):
    return [edges] if not isinstance(edges[0], list) else edges


def bin_index(val, arr):
    # number of edges <= val, minus one
    return bisect.bisect_right(arr, val) - 1


def cell_of(item, vname, edges):
    ax = axes(edges)
    idx = tuple(bin_index(item[f], e) for f, e in zip(ARGFIELDS[vname], ax))
    if all(0 <= i <= len(e) - 2 for i, e in zip(idx, ax)):
        return idx
    return None


def all_cells(edges):
    return list(itertools.product(*[range(len(e) - 1) for e in axes(edges)]))


def cell_at(bins, idx):
    b = bins
    for i in idx:
        b = b[i]
    return b


def shape_ok(bins, edges):
    ax = axes(edges)

    def rec(b, d):
        if not isinstance(b, list) or len(b) != len(ax[d]) - 1:
            return False
        if d == len(ax) - 1:
            return True
        return all(rec(x, d + 1) for x in b)
    return rec(bins, 0)


def same(a, b):
    try:
        return bool(a == b) and repr(a) == repr(b)
    except Exception:
        return repr(a) == repr(b)


def as_fcs(seq):
    return seq if isinstance(seq, FillComputeSeq) else FillComputeSeq(seq)


def reference(edges, flowj, aname, vname, ncompute=1):
    """per cell: list (one per compute call) of lists of results of a private, freshly built sequence"""
    sub = dict((idx, []) for idx in all_cells(edges))
    for item in flowj:
        idx = cell_of(item, vname, edges)
        if idx is not None:
            sub[idx].append(item)
    ref = {}
    for idx, items in sub.items():
        fcs = as_fcs(ANALYSES[aname]())
        for item in items:
            fcs.fill(mkvalue(item))
        ref[idx] = []
        for _ in range(ncompute):
            try:
                ref[idx].append(list(fcs.compute()))
            except Exception as e:          # the analysis itself fails on this sub-flow (Mean of nothing)
                ref[idx].append(RefRaised(type(e).__name__))
    return sub, ref


class RefRaised(list):
    def __init__(self, name):
        list.__init__(self)
        self.name = name


def ref_exceptions(ref, call=None):
    out = set()
    for rs in ref.values():
        for n, r in enumerate(rs):
            if isinstance(r, RefRaised) and (call is None or n == call):
                out.add(r.name)
    return out


def run_real(edges, flowj, aname, vname, ncompute=1, poke=True):
    seq = ANALYSES[aname]()
    var = ARGVARS[len(axes(edges))][vname]()
    var_context = copy.deepcopy(var.var_context)
    given = copy.deepcopy(edges)
    sib = SplitIntoBins(seq, var, given)
    if poke:
        # the object given to SplitIntoBins is not one of the cells: filling it later changes nothing
        try:
            seq.fill(((0.25, 0.25, 999), {"junk": 1}))
            seq.fill(((1.25, 1.25, 998), {"junk": 2}))
        except Exception:
            pass
    for item in flowj:
        sib.fill(mkvalue(item))
    res = [take(sib.compute()) for _ in range(ncompute)]
    LIVE_VAR[0] = var
    return sib, res, var_context, given


LIVE_VAR = [None]      # the Variable object handed to the last SplitIntoBins built by run_real


def routing_diagnosis(edges, flowj, vname):
    """which clause of the routing broke (used to make the failure id fine-grained)"""
    try:
        _, res, _, _ = guarded(run_real, edges, flowj, "collect", vname, 1, False)
        hist = res[0][0][0]
    except Exception:
        return "routing-probe-raised"
    tagpos = dict((item[2], n) for n, item in enumerate(flowj))
    home = dict((item[2], cell_of(item, vname, edges)) for item in flowj)
    ax = axes(edges)
    kinds = set()
    seen = set()
    for idx in all_cells(edges):
        try:
            got = [get_data(v)[2] for v in get_data(cell_at(hist.bins, idx))["filled"]]
        except Exception:
            return "routing-probe-unreadable"
        exp = [item[2] for item in flowj if home[item[2]] == idx]
        for t in got:
            if t not in tagpos:
                kinds.add("foreign-value-in-cell")
                continue
            seen.add(t)
            if home[t] is None:
                kinds.add("outside-value-filled")
            elif home[t] != idx:
                item = flowj[tagpos[t]]
                onborder = any(item[f] in e for f, e in zip(ARGFIELDS[vname], ax))
                kinds.add("border-value-wrong-cell" if onborder else "inner-value-wrong-cell")
        if sorted(got) == sorted(exp) and got != exp:
            kinds.add("arrival-order")
        if len(got) != len(set(got)):
            kinds.add("value-filled-twice")
    for t, h in home.items():
        if h is not None and t not in seen:
            kinds.add("inside-value-dropped")
    return "+".join(sorted(kinds)) if kinds else "routing-ok"


# --------------------------------------------------------------------------- SplitIntoBins
def check_sib(edges, flowj, aname, vname, twice=False):
    """returns a list of (fid, text) — empty iff the real code agrees with the reference"""
    bad = []
    ncomp = 2 if twice else 1
    try:
        sib, res, var_context, given = guarded(run_real, edges, flowj, aname, vname, ncomp)
    except Timeout:
        return [("SplitIntoBins/non-termination", "fill/compute did not return")]
    except Exception as e:
        _, ref = reference(edges, flowj, aname, vname, ncomp)
        if type(e).__name__ in ref_exceptions(ref):
            return []       # a cell's private analysis raises the same exception on its sub-flow
        return [("SplitIntoBins/raises:%s" % type(e).__name__, "fill/compute raised %s: %s" % (type(e).__name__, str(e)[:120]))]
    sub, ref = reference(edges, flowj, aname, vname, ncomp)
    if ref_exceptions(ref):
        return [("SplitIntoBins/exception-of-a-cell-swallowed", "a cell's private analysis raises %r, compute() raised nothing" % sorted(ref_exceptions(ref)))]
    cells = all_cells(edges)
    has_old_variable = any(item[3] and "variable" in item[3] for item in flowj)

    # one private sequence per cell, none of them the given object
    flat = [cell_at(sib.bins, idx) for idx in cells] if shape_ok(sib.bins, edges) else None
    if flat is None:
        bad.append(("SplitIntoBins/bins-attribute-shape", "SplitIntoBins.bins does not have one entry per cell: %r" % (sib.bins,)))
    elif len(set(id(c) for c in flat)) != len(flat):
        bad.append(("SplitIntoBins/cells-share-one-sequence", "several cells of SplitIntoBins.bins are the same object"))

    for call in range(ncomp):
        pre = "SplitIntoBins" if call == 0 else "SplitIntoBins/second-compute"
        r = res[call]
        nexp = min(len(ref[idx][call]) for idx in cells)
        if len(r) != nexp:
            bad.append((pre + "/number-of-histograms", "compute() yielded %d values, the cells yield %d results each" % (len(r), nexp)))
        for k, val in enumerate(r[:nexp]):
            if not (isinstance(val, tuple) and len(val) == 2 and isinstance(val[0], histogram) and isinstance(val[1], dict)):
                bad.append((pre + "/not-a-histogram-context-pair", "compute() yielded %r" % (val,)))
                continue
            h, ctx = val
            if h.edges != edges:
                bad.append((pre + "/histogram-edges", "histogram edges %r, given %r" % (h.edges, edges)))
            if not shape_ok(h.bins, edges):
                bad.append((pre + "/histogram-bins-shape", "bins %r do not fit edges %r" % (h.bins, edges)))
                continue
            for idx in cells:
                got = cell_at(h.bins, idx)
                exp = ref[idx][call][k]
                if not same(got, exp):
                    diag = routing_diagnosis(edges, flowj, vname)
                    bad.append((pre + "/cell-result-differs:" + diag,
                                "result %d, cell %r holds %.300r, its private sub-flow analysis gives %.300r" % (k, idx, got, exp)))
                    break
            # context.variable describes the argument variable
            cv = ctx.get("variable")
            if not has_old_variable:
                if cv != var_context:
                    if call and isinstance(cv, dict) and set(cv) - set(var_context) == {"compose"} and \
                            all(cv[key] == var_context[key] for key in var_context):
                        fid = pre + "/context.variable-nests-compose-of-itself"
                    else:
                        fid = pre + "/context.variable-is-not-the-argument-variable"
                    bad.append((fid, "context.variable = %r, the argument variable is %r" % (cv, var_context)))
            else:
                # flow values already carried a variable: the composition rules are C14's; the name, the type and
                # the variable's own attributes must still be those of the argument variable
                ok = isinstance(cv, dict) and all(cv.get(key) == var_context[key] for key in var_context if key != "compose")
                if not ok:
                    bad.append((pre + "/context.variable-is-not-the-argument-variable(composed)",
                                "context.variable = %r, the argument variable is %r" % (cv, var_context)))
    if given != edges:
        bad.append(("SplitIntoBins/given-edges-modified", "edges %r became %r" % (edges, given)))
    # the argument variable is only DESCRIBED in the yielded contexts: the Variable object itself (it may be shared with other
    # elements, and every later compute() describes it again) is left as it was given
    if LIVE_VAR[0] is not None and LIVE_VAR[0].var_context != var_context:
        bad.append(("SplitIntoBins/argument-variable-modified", "after %d compute() the argument variable's own context is %r, "
                    "it was given as %r" % (ncomp, LIVE_VAR[0].var_context, var_context)))
    # compute() without a fill in between describes the same variable: the same context.variable both times
    if ncomp == 2 and has_old_variable and len(res[0]) == len(res[1]):
        for k, (v1, v2) in enumerate(zip(res[0], res[1])):
            if isinstance(v1, tuple) and isinstance(v2, tuple) and len(v1) == 2 and len(v2) == 2 \
                    and isinstance(v1[1], dict) and isinstance(v2[1], dict) and v1[1].get("variable") != v2[1].get("variable"):
                bad.append(("SplitIntoBins/second-compute/context.variable-differs-from-the-first",
                            "result %d: context.variable = %r at the first compute(), %r at the second (nothing was filled "
                            "in between)" % (k, v1[1].get("variable"), v2[1].get("variable"))))
                break

    # values outside the edges are ignored: the yielded values do not depend on them
    inside = [item for item in flowj if cell_of(item, vname, edges) is not None]
    if len(inside) != len(flowj) and not [f for f, _ in bad if not f.endswith("/context.variable-nests-compose-of-itself")]:
        try:
            _, res2, _, _ = guarded(run_real, edges, inside, aname, vname, 1)
            if repr(res2[0]) != repr(res[0]):
                bad.append(("SplitIntoBins/outside-values-change-the-result",
                            "with outside values: %.300r; without them: %.300r" % (res[0], res2[0])))
        except Exception as e:
            bad.append(("SplitIntoBins/raises:%s" % type(e).__name__, "without outside values: %s" % e))
    return bad


def replay_sib(fid, edges, flowj, aname, vname, twice=False):
    return fid in [f for f, _ in check_sib(edges, flowj, aname, vname, twice)]


def report(R, bad, witness, fn, args):
    seen = set()
    for fid, text in bad:
        if fid in seen:         # one report per case and kind
            continue
        seen.add(fid)
        R.fail(fid, "%s  [%s]" % (text, ", ".join("%s=%r" % kv for kv in sorted(witness.items()))), witness,
               {"fn": fn, "args": [fid] + args})


def sib_case(R, edges, flowj, aname, vname, twice=False):
    bad = check_sib(edges, flowj, aname, vname, twice)
    R.case(True, {"edges": edges, "flow": flowj, "analysis": aname, "arg_var": vname})
    report(R, bad, {"edges": edges, "flow": flowj, "analysis": aname, "arg_var": vname, "twice": twice},
           "replay_sib", [edges, flowj, aname, vname, twice])


# histories: fills and computes interleaved (FillRequest(reset=False) drives a FillCompute element like this)
def check_history(edges, blocks, aname, vname):
    try:
        return guarded(_history, edges, blocks, aname, vname)
    except Timeout:
        return [("SplitIntoBins/non-termination", "history did not return")]
    except Exception as e:
        return [("SplitIntoBins/raises:%s" % type(e).__name__, "history raised %s: %s" % (type(e).__name__, str(e)[:120]))]


def _history(edges, blocks, aname, vname):
    bad = []
    seq = ANALYSES[aname]()
    var = ARGVARS[len(axes(edges))][vname]()
    var_context = copy.deepcopy(var.var_context)
    cells = all_cells(edges)
    priv = dict((idx, as_fcs(ANALYSES[aname]())) for idx in cells)
    sib = SplitIntoBins(seq, var, copy.deepcopy(edges))
    for nb, block in enumerate(blocks):
        for item in block:
            sib.fill(mkvalue(item))
            idx = cell_of(item, vname, edges)
            if idx is not None:
                priv[idx].fill(mkvalue(item))
        ref, ref_exc = {}, set()
        for idx in cells:
            try:
                ref[idx] = list(priv[idx].compute())
            except Exception as e:
                ref_exc.add(type(e).__name__)
        try:
            r = take(sib.compute())
        except Timeout:
            raise
        except Exception as e:
            if type(e).__name__ in ref_exc:
                return bad      # a cell's private analysis raises the same exception
            raise
        if ref_exc:
            bad.append(("SplitIntoBins/exception-of-a-cell-swallowed", "compute #%d: a private analysis raises %r" % (nb, sorted(ref_exc))))
            return bad
        nexp = min(len(v) for v in ref.values())
        if len(r) != nexp:
            bad.append(("SplitIntoBins/history/number-of-histograms", "compute #%d yielded %d values, expected %d" % (nb, len(r), nexp)))
        for k, (h, ctx) in enumerate(r[:nexp]):
            if h.edges != edges or not shape_ok(h.bins, edges):
                bad.append(("SplitIntoBins/history/histogram-edges", "compute #%d: %r" % (nb, h)))
                continue
            for idx in cells:
                if not same(cell_at(h.bins, idx), ref[idx][k]):
                    bad.append(("SplitIntoBins/history/cell-result-differs",
                                "compute #%d result %d cell %r holds %.300r, private analysis gives %.300r" % (
                                    nb, k, idx, cell_at(h.bins, idx), ref[idx][k])))
                    break
            cv = ctx.get("variable")
            if cv != var_context:
                if isinstance(cv, dict) and set(cv) - set(var_context) == {"compose"} and \
                        all(cv[key] == var_context[key] for key in var_context):
                    fid = "SplitIntoBins/second-compute/context.variable-nests-compose-of-itself"
                else:
                    fid = "SplitIntoBins/history/context.variable-is-not-the-argument-variable"
                bad.append((fid, "compute #%d: context.variable = %r, the argument variable is %r" % (nb, cv, var_context)))
    return bad


def replay_history(fid, edges, blocks, aname, vname):
    return fid in [f for f, _ in check_history(edges, blocks, aname, vname)]


# --------------------------------------------------------------------------- IterateBins
def names_of(var_context, ndim):
    if var_context is None:
        return ["coord%d" % i for i in range(ndim)]
    if "combine" in var_context:
        return [v["name"] for v in var_context["combine"]]
    return [var_context["name"]]


def check_iterate(hist, hctx, select_all):
    """hist: a histogram (bins hold values with or without context), hctx its context"""
    bad = []
    edges = copy.deepcopy(hist.edges)
    ax = axes(edges)
    cells = all_cells(edges)
    orig = copy.deepcopy(hist)
    octx = copy.deepcopy(hctx)
    el = IterateBins(select_bins=(lambda _: True)) if select_all else IterateBins()
    try:
        out = guarded(lambda: take(el.run(iter([(copy.deepcopy(hist), copy.deepcopy(hctx))]))))
    except Timeout:
        return [("IterateBins/non-termination", "run did not return")]
    except Exception as e:
        var = octx.get("variable")
        if isinstance(e, lena.core.LenaValueError) and len(ax) > 1 and isinstance(var, dict) and "combine" not in var:
            return [("IterateBins/raises-for-2d-histogram-of-a-plain-Variable",
                     "IterateBins().run raised %s: %s" % (type(e).__name__, str(e)[:160]))]
        return [("IterateBins/raises:%s" % type(e).__name__, "run raised %s: %s" % (type(e).__name__, str(e)[:160]))]
    if len(out) != len(cells):
        bad.append(("IterateBins/each-cell-once", "%d values for %d cells" % (len(out), len(cells))))
        return bad
    seen = {}
    for val in out:
        if not (isinstance(val, tuple) and len(val) == 2 and isinstance(val[1], dict)):
            bad.append(("IterateBins/not-a-data-context-pair", "yielded %r" % (val,)))
            return bad
        be = val[1].get("bin", {}).get("edges") if isinstance(val[1].get("bin"), dict) else None
        try:
            key = tuple(tuple(p) for p in be)
        except TypeError:
            key = None
        if key in seen or key is None:
            bad.append(("IterateBins/each-cell-once", "context.bin.edges %r missing or yielded twice" % (be,)))
            return bad
        seen[key] = val
    names = names_of(octx.get("variable"), len(ax))
    for idx in cells:
        cedges = tuple((e[i], e[i + 1]) for e, i in zip(ax, idx))
        if cedges not in seen:
            bad.append(("IterateBins/each-cell-once", "no value with the edges %r of cell %r" % (cedges, idx)))
            continue
        data, ctx = seen[cedges]
        cdata, cctx = get_data_context(cell_at(orig.bins, idx))
        if not same(data, cdata):
            bad.append(("IterateBins/cell-content-with-foreign-edges", "edges %r came with %.200r, cell %r holds %.200r" % (cedges, data, idx, cdata)))
        own = dict((k, v) for k, v in ctx.items() if k not in ("bin", "bins"))
        if own != cctx:
            bad.append(("IterateBins/cell-context-lost", "cell %r: context %r, the cell's own context is %r" % (idx, own, cctx)))
        if ctx.get("bins") != octx:
            bad.append(("IterateBins/histogram-context-not-in-context.bins", "cell %r: context.bins = %r, histogram context %r" % (idx, ctx.get("bins"), octx)))
        exp_str = "_".join("%s_lte_%s_lt_%s" % (lo, n, hi) for (lo, hi), n in zip(cedges, names)) if len(names) == len(cedges) else None
        if exp_str is not None and ctx["bin"].get("edges_str") != exp_str:
            bad.append(("IterateBins/edges_str", "cell %r: edges_str %r, expected %r" % (idx, ctx["bin"].get("edges_str"), exp_str)))
    # "its own context": what is yielded for one cell is not shared with another cell
    if not bad and len(out) > 1:
        snap = [copy.deepcopy(v[1]) for v in out]
        c0 = out[0][1]
        for key in list(c0):
            if isinstance(c0[key], dict):
                c0[key]["__poke__"] = 1
                for sk in c0[key].values():
                    if isinstance(sk, dict):
                        sk["__poke__"] = 1
        c0["__poke__"] = 1
        for n in range(1, len(out)):
            if out[n][1] != snap[n]:
                bad.append(("IterateBins/contexts-shared-between-cells", "changing the context yielded for the first cell changed that of value %d: %r" % (n, out[n][1])))
                break
    return bad


def build_hist(edges, flowj, aname, vname):
    _, res, _, _ = run_real(edges, flowj, aname, vname, poke=False)
    return res[0]


def replay_iterate(fid, edges, flowj, aname, vname, select_all, k=0):
    h, c = build_hist(edges, flowj, aname, vname)[k]
    return fid in [f for f, _ in check_iterate(h, c, select_all)]


def hand_hist(edges, kind):
    """hand-made histogram whose cells are tagged"""
    cells = all_cells(edges)
    ax = axes(edges)

    def content(idx):
        t = "c" + "".join(str(i) for i in idx)
        if kind == "bare":
            return t
        if kind == "ctx":
            return (t, {"cell": list(idx), "deep": {"t": t}})
        return (histogram([0, 1], [t]), {"cell": list(idx)})

    def rec(prefix, d):
        if d == len(ax):
            return content(prefix)
        return [rec(prefix + (i,), d + 1) for i in range(len(ax[d]) - 1)]
    return histogram(copy.deepcopy(edges), rec((), 0))


HCTX = {
    "none": {},
    "name1": {"variable": {"name": "v"}, "a": {"b": 1}},
    "comb2": {"variable": {"name": "xy", "combine": [{"name": "x"}, {"name": "y"}]}, "a": {"b": 1}},
}


def replay_iterate_hand(fid, edges, kind, cname, select_all):
    return fid in [f for f, _ in check_iterate(hand_hist(edges, kind), copy.deepcopy(HCTX[cname]), select_all)]


# --------------------------------------------------------------------------- MapBins
class Stamp(object):
    """stateful Run element: numbers the values it sees (a private copy per cell always says 1)"""

    def __init__(self):
        self.n = 0

    def run(self, flow):
        for v in flow:
            d, c = get_data_context(v)
            self.n += 1
            c = copy.deepcopy(c)
            c["stamp"] = self.n
            yield ((d, "seen", self.n), c)


class Fan(object):
    """Run element: k results for one cell"""

    def __init__(self, k):
        self.k = k

    def run(self, flow):
        for v in flow:
            d, c = get_data_context(v)
            for j in range(self.k):
                yield ((j, d), dict(c, fan=j))


def _wrap(v):
    return (("w", get_data(v)), get_context(v))


MAPSEQS = {
    "call": lambda: _wrap,
    "seq2": lambda: Sequence(_wrap, _wrap),
    "stamp": lambda: Stamp(),
    "fan3": lambda: Sequence(Stamp(), Fan(3)),
    "fan0": lambda: Fan(0),
}


def check_map(hist, hctx, sname, drop):
    bad = []
    edges = copy.deepcopy(hist.edges)
    cells = all_cells(edges)
    orig = copy.deepcopy(hist)
    ref = {}
    for idx in cells:
        s = MAPSEQS[sname]()
        s = s if lena.core.is_run_el(s) else Sequence(s)
        ref[idx] = list(s.run(iter([copy.deepcopy(cell_at(orig.bins, idx))])))
    nexp = min(len(v) for v in ref.values())
    try:
        out = guarded(lambda: take(MapBins(MAPSEQS[sname](), drop_bins_context=drop).run(
            iter([(copy.deepcopy(orig), copy.deepcopy(hctx)), (copy.deepcopy(orig), copy.deepcopy(hctx))]))))
    except Timeout:
        return [("MapBins/non-termination", "run did not return")]
    except Exception as e:
        return [("MapBins/raises:%s" % type(e).__name__, "run raised %s: %s" % (type(e).__name__, str(e)[:160]))]
    # the flow holds the same histogram twice: each must be mapped by fresh copies
    if len(out) != 2 * nexp:
        bad.append(("MapBins/number-of-histograms", "%d values for two input histograms, each cell yields %d results" % (len(out), nexp)))
        return bad
    for n, val in enumerate(out):
        k = n % nexp
        if not (isinstance(val, tuple) and len(val) == 2 and isinstance(val[0], histogram)):
            bad.append(("MapBins/not-a-histogram", "yielded %r" % (val,)))
            continue
        h = val[0]
        if h.edges != edges:
            bad.append(("MapBins/edges-differ", "edges %r, input %r" % (h.edges, edges)))
        if not shape_ok(h.bins, edges):
            bad.append(("MapBins/shape-differs", "bins %r for edges %r" % (h.bins, edges)))
            continue
        for idx in cells:
            exp = get_data(ref[idx][k]) if drop else ref[idx][k]
            got = cell_at(h.bins, idx)
            if not same(got, exp):
                which = "first" if n < nexp else "second"
                bad.append(("MapBins/cell-is-not-seq-of-cell(%s-histogram)" % which,
                            "output %d cell %r holds %.200r, the sequence applied to the cell gives %.200r" % (n, idx, got, exp)))
                break
    return bad


def replay_map_hand(fid, edges, kind, cname, sname, drop):
    return fid in [f for f, _ in check_map(hand_hist(edges, kind), copy.deepcopy(HCTX[cname]), sname, drop)]


def replay_map(fid, edges, flowj, aname, vname, sname, drop, k=0):
    h, c = build_hist(edges, flowj, aname, vname)[k]
    return fid in [f for f, _ in check_map(h, c, sname, drop)]


# --------------------------------------------------------------------------- md_map / _MdSeqMap
def nested(shape, start=0):
    """nested list of the given shape with distinct leaves (tuples, so that tuples are seen not to be expanded)"""
    counter = [start]

    def rec(d):
        if d == len(shape):
            counter[0] += 1
            return (counter[0], "leaf")
        return [rec(d + 1) for _ in range(shape[d])]
    return rec(0)


def ref_map(f, *arrs):
    if isinstance(arrs[0], list):
        return [ref_map(f, *[a[i] for a in arrs]) for i in range(len(arrs[0]))]
    return f(*arrs)


def check_md_map(shape, narr):
    arrs = [nested(shape, 100 * n) for n in range(narr)]
    before = copy.deepcopy(arrs)
    f = (lambda *leaves: ("f",) + leaves)
    try:
        got = md_map(f, *arrs)
    except Exception as e:
        return [("md_map/raises:%s" % type(e).__name__, "md_map raised %s for shape %r" % (type(e).__name__, shape))]
    exp = ref_map(f, *arrs) if shape[0] else []
    bad = []
    if got != exp:
        bad.append(("md_map/shape-or-content", "md_map over shape %r (%d arrays) gives %.200r, expected %.200r" % (shape, narr, got, exp)))
    if arrs != before:
        bad.append(("md_map/argument-modified", "arrays of shape %r changed" % (shape,)))
    return bad


def replay_md_map(fid, shape, narr):
    return fid in [f for f, _ in check_md_map(shape, narr)]


def check_mdseqmap(shape, lens):
    """cells are tuples of results; _MdSeqMap(iter, cells) yields arrays of the same shape until a cell is exhausted"""
    it = iter(lens)
    counter = [0]

    def rec(d):
        if d == len(shape):
            counter[0] += 1
            return tuple((counter[0], j) for j in range(next(it)))
        return [rec(d + 1) for _ in range(shape[d])]
    arr = rec(0)
    exp = []
    for k in range(min(lens)):
        exp.append(ref_map(lambda cell: cell[k], arr))
    try:
        got = guarded(lambda: take(_MdSeqMap(lambda cell: iter(cell), arr)))
    except Timeout:
        return [("_MdSeqMap/non-termination", "iteration over shape %r lens %r did not stop" % (shape, lens))]
    except Exception as e:
        return [("_MdSeqMap/raises:%s" % type(e).__name__, "raised %s for shape %r lens %r" % (type(e).__name__, shape, lens))]
    if got != exp:
        return [("_MdSeqMap/zip-of-cell-generators", "shape %r lens %r gives %.200r, expected %.200r" % (shape, lens, got, exp))]
    return []


def replay_mdseqmap(fid, shape, lens):
    return fid in [f for f, _ in check_mdseqmap(shape, lens)]


# --------------------------------------------------------------------------- scopes
EDGES1 = [list(c) for n in (2, 3, 4) for c in itertools.combinations([0, 1, 2, 3], n)]
GRID1 = [-1, 0, 0.5, 1, 1.5, 2, 2.5, 3, 3.5]
EDGES2 = [[a, b] for a in ([0, 1], [0, 1, 2], [0, 2, 3]) for b in ([0, 1], [0, 1, 3], [1, 2, 3])]
GRID2 = [-1, 0, 1, 1.5, 2, 3]


def ctx_for(tag, mode):
    if mode == 0:
        return None
    if mode == 1:
        return {"k": tag, "deep": {"t": [tag]}}
    return None if tag % 2 else {"k": tag}


def float_edges(rng):
    n = rng.randint(2, 6)
    kind = rng.choice(["int", "uniform", "nonuni", "tiny"])
    if kind == "int":
        xs = rng.sample(range(-5, 9), n)
    elif kind == "uniform":
        a, h = rng.uniform(-3, 3), rng.uniform(0.1, 2)
        xs = [a + i * h for i in range(n)]
    elif kind == "nonuni":
        xs = [rng.choice([1e-6, 1e-2, 1, 1e3]) * rng.uniform(-1, 1) for _ in range(n)]
    else:
        xs = [0.1 * i for i in range(n)]
    xs = sorted(set(xs))
    return xs if len(xs) >= 2 else [0, 1]


def coord_near(e, rng):
    c = rng.choice(e)
    return rng.choice([c, c, math.nextafter(c, math.inf), math.nextafter(c, -math.inf), e[0] - 1.5, e[-1] + 0.5, e[-1],
                       rng.uniform(e[0], e[-1]), (e[0] + e[-1]) / 2.0])


def random_ctx(rng, tag):
    r = rng.random()
    if r < 0.35:
        return None
    if r < 0.9:
        return {"k": tag, "deep": {"t": [tag]}}
    return {"k": tag, "variable": {"name": "old", "type": "told", "told": {"name": "old"}}}


def body(R):
    try:
        _body(R)
    except TooManyHangs:
        R.error = "aborted after %d calls of the real code that did not return (see the non-termination failures)" % HANGS[0]


def _body(R):
    rng = R.rng
    T = R.thorough

    # ---- 1-d exhaustive
    L1 = 4 if T else 3
    an1 = AN_NAMES if T else ["collect3", "mutctx", "dupfilter", "store", "pre-sum-post"]
    R.scope("SplitIntoBins.fill/compute, 1-d",
            "all %d strictly increasing edge lists over {0,1,2,3} (2..4 edges) x all flows of length 0..%d over the coordinates %r "
            "(inside, on every border, outside), unique tags, contexts none/all/alternating x analyses %r x argument variables "
            "plain/typed; reference: private freshly built sequence per cell on its sub-flow" % (len(EDGES1), L1, GRID1, an1), True)
    n = 0
    for edges in EDGES1:
        for ln in range(0, L1 + 1):
            for xs in itertools.product(GRID1, repeat=ln):
                n += 1
                aname = an1[n % len(an1)]
                if not T and ln == 3 and n % 3:
                    continue
                vname = ("plain1", "typed1")[(n // len(an1)) % 2]
                mode = (n // 7) % 3
                flowj = [[x, 9 - x, t + 1, ctx_for(t + 1, mode)] for t, x in enumerate(xs)]
                sib_case(R, edges, flowj, aname, vname)
    if not T:
        R.cur["bound"] += " [quick: every third flow of length 3]"
        R.cur["exhaustive"] = False
        R.exhaustive = False

    # ---- exact integers beyond 2**53 (nanosecond time stamps): cells narrower than the float spacing at that magnitude
    B = 17 * 10 ** 17
    big_edges = [[B, B + 100, B + 200, B + 300], [B, B + 1, B + 2]]
    R.scope("SplitIntoBins.fill/compute, 1-d, integer coordinates beyond 2**53",
            "edges %r; flows over every edge, edge-1, edge+1 and mid-cell integer coordinate (python ints, compared exactly); "
            "analyses collect3 / store, plain and typed argument variable" % (big_edges,), True)
    for edges in big_edges:
        w = edges[1] - edges[0]
        coords = sorted({c for e in edges for c in (e - 1, e, e + 1, e + w // 2)})
        for aname in ("collect3", "store"):
            for vname in ("plain1", "typed1"):
                flowj = [[x, 0, t + 1, ctx_for(t + 1, t % 3)] for t, x in enumerate(coords)]
                sib_case(R, edges, flowj, aname, vname)
                sib_case(R, edges, list(reversed(flowj)), aname, vname)

    # ---- every analysis x every argument variable on a fixed set of flows that touch every cell, border and outside
    R.scope("SplitIntoBins.fill/compute, every analysis x every argument variable",
            "%d analyses x 7 argument variables (1-d: plain, typed, second field; 2-d: plain tuple, list getter, Combine, "
            "swapped Combine) x edges {[0,1,2,3],[0,2]} / {[[0,1,2],[0,1,3]],[[0,2],[1,2,3]]} x 3 fixed flows of 0, 7 and 12 values "
            "(each border, inside, outside), compute() called twice" % len(AN_NAMES), True)
    fixed = [[],
             [[0, 1, 1, None], [1, 0, 2, {"k": 2}], [2.5, 1, 3, None], [3, 3, 4, {"k": 4}], [-1, 0, 5, None], [0.5, 2.5, 6, {"k": 6}], [1, 1, 7, None]],
             [[x, y, t + 1, ctx_for(t + 1, 1)] for t, (x, y) in enumerate(
                 [(0, 0), (2, 3), (1, 1), (0.5, 2), (1, 1), (3, 0), (-0.5, 1), (1.5, 1.5), (0, 2.999), (1.999, 0), (0, -1), (1, 1)])]]
    # (a fourth flow whose values already carry a typed context.variable, as they do after a Variable upstream)
    fixed.append([[x, y, t + 1, {"variable": {"name": "p", "type": "particle", "particle": {"name": "p"}}, "k": t}]
                  for t, (x, y) in enumerate([(0, 0), (1, 1), (2, 3), (0.5, 2), (1.5, 0.5)])])
    for aname in AN_NAMES:
        for dim in (1, 2):
            for vname in sorted(ARGVARS[dim]):
                for edges in ([[0, 1, 2, 3], [0, 2]] if dim == 1 else [[[0, 1, 2], [0, 1, 3]], [[0, 2], [1, 2, 3]]]):
                    for flowj in fixed:
                        sib_case(R, edges, copy.deepcopy(flowj), aname, vname, twice=True)

    # ---- 2-d exhaustive
    L2 = 2
    an2 = AN_NAMES if T else ["collect3", "mutctx", "dupfilter", "sum"]
    R.scope("SplitIntoBins.fill/compute, 2-d",
            "all %d edge pairs from {[0,1],[0,1,2],[0,2,3]} x {[0,1],[0,1,3],[1,2,3]} x all flows of length 0..%d over the points %r^2, "
            "unique tags, analyses %r, argument variables plain tuple / list getter / Combine / swapped Combine" % (len(EDGES2), L2, GRID2, an2), True)
    pts = list(itertools.product(GRID2, repeat=2))
    v2 = sorted(ARGVARS[2])
    n = 0
    for edges in EDGES2:
        for ln in range(0, L2 + 1):
            for ps in itertools.product(pts, repeat=ln):
                n += 1
                if not T and ln == 2 and n % 4:
                    continue
                aname = an2[n % len(an2)]
                vname = v2[(n // len(an2)) % len(v2)]
                flowj = [[p[0], p[1], t + 1, ctx_for(t + 1, (n // 5) % 3)] for t, p in enumerate(ps)]
                sib_case(R, edges, flowj, aname, vname)
    if not T:
        R.cur["bound"] += " [quick: every fourth flow of length 2]"
        R.cur["exhaustive"] = False
        R.exhaustive = False

    # ---- random float edges, longer flows
    nr = 12000 if T else 500
    R.scope("SplitIntoBins.fill/compute, random",
            "%d random cases: 1-d/2-d float edges (2..6 per axis; integer/uniform/non-uniform/0.1-steps), flows of 0..14 values at "
            "edges, their nextafter neighbours, the last edge, outside and inside; contexts none / nested / with an older "
            "context.variable; random analysis and argument variable; a third of them computed twice" % nr, False)
    for _ in range(nr):
        dim = rng.choice([1, 2])
        ed = [float_edges(rng) for _ in range(dim)]
        e2 = [float_edges(rng), float_edges(rng)]
        edges = ed[0] if dim == 1 else ed
        vname = rng.choice(sorted(ARGVARS[dim]))
        aname = rng.choice(AN_NAMES)
        flowj = []
        for t in range(rng.randint(0, 14)):
            item = [0, 0, t + 1, random_ctx(rng, t + 1)]
            fields = ARGFIELDS[vname]
            for f, e in zip(fields, ed):
                item[f] = coord_near(e, rng)
            for f in (0, 1):
                if f not in fields:
                    item[f] = coord_near(e2[f], rng)
            flowj.append(item)
        sib_case(R, edges, flowj, aname, vname, twice=(rng.random() < 0.33))

    # ---- histories
    nh = 4000 if T else 150
    R.scope("SplitIntoBins fill/compute histories",
            "%d random histories of 2..4 blocks (0..4 fills, then compute()) — the way FillRequest(reset=False) drives the element; "
            "integer edges in 1-d/2-d; every compute compared with private per-cell sequences that lived through the same history" % nh, False)
    for _ in range(nh):
        dim = rng.choice([1, 2])
        edges = rng.choice(EDGES1) if dim == 1 else rng.choice(EDGES2)
        vname = rng.choice(sorted(ARGVARS[dim]))
        aname = rng.choice(AN_NAMES)
        blocks, t = [], 0
        for _b in range(rng.randint(2, 4)):
            blk = []
            for _v in range(rng.randint(0, 4)):
                t += 1
                blk.append([rng.choice(GRID1), rng.choice(GRID1), t, ctx_for(t, rng.randint(0, 2))])
            blocks.append(blk)
        bad = check_history(edges, blocks, aname, vname)
        R.case(True, {"edges": edges, "blocks": blocks, "analysis": aname, "arg_var": vname})
        report(R, bad, {"edges": edges, "blocks": blocks, "analysis": aname, "arg_var": vname}, "replay_history", [edges, blocks, aname, vname])

    # ---- IterateBins
    R.scope("IterateBins.run",
            "hand-made tagged histograms: all edges of the 1-d and 2-d lists above x cells bare / with context / histograms with "
            "context x histogram contexts (no variable / single name / combine) x default and select-all selection; and histograms "
            "produced by SplitIntoBins (analyses hist, collect3, mutctx; every argument variable; fixed flows)", True)
    for edges in EDGES1 + EDGES2:
        dim = len(axes(edges))
        for kind in ("bare", "ctx", "hist"):
            for cname in ("none", "name1" if dim == 1 else "comb2"):
                select_all = kind != "hist"
                bad = check_iterate(hand_hist(edges, kind), copy.deepcopy(HCTX[cname]), select_all)
                R.case(True, {"edges": edges, "cells": kind, "context": cname})
                report(R, bad, {"edges": edges, "cells": kind, "context": cname}, "replay_iterate_hand", [edges, kind, cname, select_all])
    for aname in ("hist", "collect3", "mutctx"):
        for dim in (1, 2):
            for vname in sorted(ARGVARS[dim]):
                for edges in ([[0, 1, 2, 3], [0, 2]] if dim == 1 else [[[0, 1, 2], [0, 1, 3]], [[0, 2], [1, 2, 3]]]):
                    for nf, flowj in enumerate(fixed):
                        select_all = aname != "hist"
                        try:
                            results = build_hist(edges, copy.deepcopy(flowj), aname, vname)
                        except Exception:
                            continue   # reported by the SplitIntoBins scopes
                        for k, (h, c) in enumerate(results):
                            bad = check_iterate(h, c, select_all)
                            R.case(True, {"edges": edges, "analysis": aname, "arg_var": vname, "flow": nf})
                            report(R, bad, {"edges": edges, "analysis": aname, "arg_var": vname, "flow": flowj, "result": k},
                                   "replay_iterate", [edges, flowj, aname, vname, select_all, k])

    # ---- MapBins
    R.scope("MapBins.run",
            "hand-made tagged histograms (all 1-d and 2-d edges above, cells bare / with context) and SplitIntoBins results "
            "(collect3, mutctx) x sequences {function, Sequence of two, stateful Run element, stateful + 3 results per cell, no result} "
            "x drop_bins_context; the histogram is sent through twice in one flow", True)
    for edges in EDGES1 + EDGES2:
        dim = len(axes(edges))
        for kind in ("bare", "ctx"):
            for sname in sorted(MAPSEQS):
                for drop in (True, False):
                    cname = "name1" if dim == 1 else "comb2"
                    bad = check_map(hand_hist(edges, kind), copy.deepcopy(HCTX[cname]), sname, drop)
                    R.case(True, {"edges": edges, "cells": kind, "seq": sname, "drop": drop})
                    report(R, bad, {"edges": edges, "cells": kind, "seq": sname, "drop": drop}, "replay_map_hand", [edges, kind, cname, sname, drop])
    for aname in ("collect3", "mutctx"):
        for dim, vname, edges in ((1, "typed1", [0, 1, 2, 3]), (2, "combine2", [[0, 1, 2], [0, 1, 3]]), (2, "plain2", [[0, 2], [1, 2, 3]])):
            for flowj in fixed[1:]:
                for sname in sorted(MAPSEQS):
                    for drop in (True, False):
                        try:
                            results = build_hist(edges, copy.deepcopy(flowj), aname, vname)
                        except Exception:
                            continue   # reported by the SplitIntoBins scopes
                        for k, (h, c) in enumerate(results):
                            bad = check_map(h, c, sname, drop)
                            R.case(True)
                            report(R, bad, {"edges": edges, "analysis": aname, "arg_var": vname, "flow": flowj, "seq": sname, "drop": drop, "result": k},
                                   "replay_map", [edges, flowj, aname, vname, sname, drop, k])

    # ---- md_map, _MdSeqMap
    R.scope("math.md_map", "all shapes (n), (n,m), (n,m,l) with n in 0..3, m,l in 1..3 (and inner length 0 in 2-d) x 1..3 arrays, tuple "
                           "leaves; non-list arguments raise LenaTypeError", True)
    shapes = [(a,) for a in range(4)] + [(a, b) for a in range(1, 4) for b in range(0, 4)] + \
             [(a, b, c) for a in range(1, 4) for b in range(1, 4) for c in range(1, 4)]
    for shape in shapes:
        for narr in (1, 2, 3):
            bad = check_md_map(list(shape), narr)
            R.case(True, {"shape": shape, "arrays": narr})
            report(R, bad, {"shape": list(shape), "arrays": narr}, "replay_md_map", [list(shape), narr])
    for notlist in ((1, 2), 5, "ab", None):
        R.case(True)
        try:
            md_map(abs, notlist)
            R.fail("md_map/non-list-accepted", "md_map(abs, %r) did not raise LenaTypeError" % (notlist,), {"arg": repr(notlist)})
        except lena.core.LenaTypeError:
            pass
        except Exception as e:
            R.fail("md_map/non-list-wrong-exception", "md_map(abs, %r) raised %s" % (notlist, type(e).__name__), {"arg": repr(notlist)})
    R.scope("split_into_bins._MdSeqMap", "shapes (1..3) and (1..2, 1..3), every cell a generator of 0..3 results: arrays of the same shape "
                                         "until the first cell is exhausted", True)
    for shape in [(a,) for a in (1, 2, 3)] + [(a, b) for a in (1, 2) for b in (1, 2, 3)]:
        ncell = 1
        for s in shape:
            ncell *= s
        allens = list(itertools.product(range(4), repeat=ncell))
        if len(allens) > 300:
            allens = allens[::7]
        for lens in allens:
            bad = check_mdseqmap(list(shape), list(lens))
            R.case(True)
            report(R, bad, {"shape": list(shape), "lens": list(lens)}, "replay_mdseqmap", [list(shape), list(lens)])


if __name__ == "__main__":
    R = Run("C11", {"replay_sib": replay_sib, "replay_history": replay_history, "replay_iterate": replay_iterate,
                    "replay_iterate_hand": replay_iterate_hand, "replay_map": replay_map, "replay_map_hand": replay_map_hand,
                    "replay_md_map": replay_md_map, "replay_mdseqmap": replay_mdseqmap})
    sys.exit(R.main(body, "every case runs the real SplitIntoBins / IterateBins / MapBins / md_map and compares with the per-cell "
                          "reference; a case is non-trivial when the real code was executed and compared; cases are distinct by "
                          "construction of the enumeration (random cases by the seeded generator)"))
