"""C03 bounded stand-in: the REAL Split.run / Split.fill/compute/request/__call__ / Zip on tagged branches, against the
block/branch schedule written out from the property text (`split_spec` below; DESIGN Appendix A).

Every branch is described by a small JSON descriptor from which BOTH the real branch (Source / FillComputeSeq /
FillRequestSeq / Sequence instances, bare elements, tuples that Split has to classify and convert, nested common-type
Splits and Zips) and its reference denotation are built, so that a witness is replayable from JSON alone.  Outputs carry
the branch tag, so every yielded value is attributed to one branch; branch objects also log their invocations.

What is demanded (and nothing else, DESIGN section 9):
 * output of Split.run == concatenation block by block, in branch order, of: whole Source output the first time the
   Source is reached; run(block) of a plain Sequence; request() results of a fill/request branch after the block was
   filled; compute() of a fill/compute branch when it signalled LenaStopFill (then dropped) or after the last block;
   a fill/request branch that signalled LenaStopFill is requested and dropped; empty flow: every branch invoked once;
 * (relation between runs) fill/compute and per-value branches give the same results for every bufsize;
 * empty Split == identity; common-type methods; Zip tuples of the i-th results (stop at the shortest);
 * with copy_buf=True a branch that mutates its values does not change what the other branches are given.
A Sequence branch is run once PER BLOCK (documented) - its bufsize dependence is expected, not a failure."""
import collections
import copy
import itertools
import os
import sys
sys.path.insert(0, os.path.dirname(os.path.dirname(os.path.abspath(__file__))))
from bounded.common import Run, watchdog, Timeout

import lena.core
from lena.core import Split, Source, Sequence, FillComputeSeq, FillRequestSeq, LenaStopFill
from lena.flow import Zip

WD = [2.0]      # watchdog seconds; a reported non-termination is re-checked with 8 s before it counts (busy machine)
KIND_NAME = {"src": "source", "fc": "fill_compute", "fr": "fill_request", "seq": "sequence"}
PRE = ("seq", "tuple")            # forms with a map before the accumulator
POST = ("seq", "tuple_post")      # forms with a map after the accumulator
DROP = (1, 3, "a")                # values removed by the per-value filter element


# ------------------------------------------------------------------ JSON <-> flow values
def dec(v):
    if isinstance(v, dict):
        if "__range" in v:
            return list(range(v["__range"]))
        if "__t" in v:
            return tuple(dec(x) for x in v["__t"])
        return dict((k, dec(x)) for k, x in v.items())
    if isinstance(v, list):
        return [dec(x) for x in v]
    return v


VALUES = [0, 1, 2, 3, None, "", "a", 0.5, [], [7], {"__t": []}, {"__t": [4, {"c": {"d": 1}}]}, {}]


def feed(flow, mode):
    if mode == "list":
        return flow
    if mode == "tuple":
        return tuple(flow)
    if mode == "gen":
        return (v for v in flow)
    return iter(flow)


# ------------------------------------------------------------------ real tagged elements
class SrcEl(object):
    def __init__(self, tag, n, log):
        self.tag, self.n, self.log = tag, n, log

    def __call__(self):
        self.log.append(("src", self.tag))
        for j in range(self.n):
            yield (self.tag, "src", j)


class FC(object):
    """stop=k: the fill call number k (from 0) raises LenaStopFill; sticky: so does every later call;
    once: later calls would be accepted again (visible if a finalised branch is filled again)"""
    def __init__(self, tag, stop, nres, log, ctx=None, once=False):
        self.tag, self.stop, self.nres, self.log, self.ctx, self.once = tag, stop, nres, log, ctx, once
        self.vals = []
        self.raised = False

    def fill(self, v):
        if self.stop is not None and len(self.vals) >= self.stop and not (self.once and self.raised):
            self.raised = True
            raise LenaStopFill()
        self.vals.append(v)
        self.log.append(("fill", self.tag, v))

    def compute(self):
        self.log.append(("compute", self.tag))
        for j in range(self.nres):
            r = (self.tag, "compute", j, tuple(self.vals))
            if self.ctx == "own":
                r = (r, {"tag": self.tag, "common": 1})
            elif self.ctx == "empty":
                r = (r, {})
            yield r


class FR(object):
    def __init__(self, tag, stop, nres, log, ctx=None, once=False):
        self.tag, self.stop, self.nres, self.log, self.ctx, self.once = tag, stop, nres, log, ctx, once
        self.pending = []
        self.n = 0
        self.raised = False

    def fill(self, v):
        if self.stop is not None and self.n >= self.stop and not (self.once and self.raised):
            self.raised = True
            raise LenaStopFill()
        self.n += 1
        self.pending.append(v)
        self.log.append(("fill", self.tag, v))

    def request(self):
        self.log.append(("request", self.tag))
        pend = tuple(self.pending)
        self.pending = []
        for j in range(self.nres):
            r = (self.tag, "request", j, pend)
            if self.ctx == "own":
                r = (r, {"tag": self.tag, "common": 1})
            yield r


class BlockEl(object):
    """run element whose single result is the whole block it was given"""
    def __init__(self, tag, log):
        self.tag, self.log = tag, log

    def run(self, flow):
        self.log.append(("run", self.tag))
        yield (self.tag, "block", tuple(flow))


class CountEl(object):
    """stateful run element: numbers its invocations"""
    def __init__(self, tag, log):
        self.tag, self.log, self.n = tag, log, 0

    def run(self, flow):
        self.log.append(("run", self.tag))
        self.n += 1
        yield (self.tag, "run", self.n, len(list(flow)))


class FilterEl(object):
    def __init__(self, tag, log):
        self.tag, self.log = tag, log

    def run(self, flow):
        self.log.append(("run", self.tag))
        for v in flow:
            if not any(v is d or (type(v) is type(d) and v == d) for d in DROP):
                yield v


def map_fn(tag):
    return lambda v: (tag, "map", v)


def pre_fn(tag):
    return lambda v: ("pre", tag, v)


def post_fn(tag):
    return lambda r: ("post", tag, r)


def mut_fn(tag):
    def f(v):
        v.append("M")          # in-place change of the value the branch was given
        return (tag, "mut", len(v))
    return f


def mutpre_fn(tag):
    def f(v):
        v.append("M")
        return ("pre", tag, len(v))
    return f


def build(d, tag, log):
    """the real branch object for descriptor d"""
    k, form = d["k"], d["form"]
    if k == "src":
        if form == "call":
            return Source(SrcEl(tag, 2, log))
        if form == "empty":
            return Source(SrcEl(tag, 0, log))
        if form == "tail":
            return Source(SrcEl(tag, 1, log), post_fn(tag))
        if form == "iterable":
            return Source([(tag, "it", 0), (tag, "it", 1)], post_fn(tag))
    elif k in ("fc", "fr"):
        if form in ("split", "zip"):
            subs = [build(sd, "%s.%d" % (tag, j), log) for j, sd in enumerate(d["sub"])]
            return Split(subs, copy_buf=d.get("copy", True)) if form == "split" else Zip(subs)
        cls = FC if k == "fc" else FR
        el = cls(tag, d.get("stop"), d.get("nres", 1), log, d.get("ctx"), bool(d.get("once")))
        if form == "el":
            return el
        if form == "seq":
            if k == "fc":
                return FillComputeSeq(pre_fn(tag), el, post_fn(tag))
            return FillRequestSeq(pre_fn(tag), el, post_fn(tag), reset=False, buffer_input=True)
        if form == "tuple":
            return (pre_fn(tag), el)
        if form == "tuple_post":
            return (el, post_fn(tag))
        if form == "tuple_mut":
            return (mutpre_fn(tag), el)
    elif k == "seq":
        if form == "map":
            return map_fn(tag)
        if form == "block":
            return BlockEl(tag, log)
        if form == "block_seq":
            return Sequence(BlockEl(tag, log))
        if form == "filter_seq":
            return Sequence(FilterEl(tag, log), map_fn(tag))
        if form == "fc_in_seq":
            # a ready Sequence OBJECT holding a fill/compute element: still "a plain Sequence run on that block"
            return Sequence(FC(tag, None, 1, log))
        if form == "tuple_block":
            return (map_fn(tag), BlockEl(tag, log))
        if form == "count":
            return CountEl(tag, log)
        if form == "mutmap":
            return mut_fn(tag)
    raise ValueError("unknown descriptor %r" % (d,))


# ------------------------------------------------------------------ reference (from the property text)
def keep(v):
    return not any(v is d or (type(v) is type(d) and v == d) for d in DROP)


class Ref(object):
    """denotation and reference state of one branch"""

    def __init__(self, d, tag, count=True):
        self.d, self.tag, self.kind, self.form = d, tag, d["k"], d["form"]
        self.stop, self.nres, self.ctx = d.get("stop"), d.get("nres", 1), d.get("ctx")
        self.filled, self.pending, self.nfill, self.runs = [], [], 0, 0
        self.calls = collections.Counter()
        self.count = count
        self.sub = [Ref(sd, "%s.%d" % (tag, j), False) for j, sd in enumerate(d.get("sub", []))]
        self.stop_fired = False

    def _post(self, rs):
        return [("post", self.tag, r) for r in rs] if self.form in POST else rs

    def _ctx(self, r):
        return (r, {"tag": self.tag, "common": 1}) if self.ctx == "own" else (r, {}) if self.ctx == "empty" and self.kind == "fc" else r

    def fill1(self, v):
        self.nfill += 1
        if self.sub:
            for s in self.sub:
                s.fill1(v)
        else:
            pv = ("pre", self.tag, v) if self.form in PRE else ("pre", self.tag, len(v) + 1) if self.form == "tuple_mut" else v
            self.filled.append(pv)
            self.pending.append(pv)

    def offer(self, blk):
        """fill the values of one block; True iff the branch signalled LenaStopFill"""
        for v in blk:
            if self.stop is not None and self.nfill >= self.stop:
                self.stop_fired = True
                return True
            self.fill1(v)
        return False

    def comp(self):
        if self.form == "split":
            return [r for s in self.sub for r in s.comp()]
        if self.form == "zip":
            return [tuple(t) for t in zip(*[s.comp() for s in self.sub])]
        self.calls["compute"] += 1
        return self._post([self._ctx((self.tag, "compute", j, tuple(self.filled))) for j in range(self.nres)])

    def req(self):
        if self.form == "split":
            return [r for s in self.sub for r in s.req()]
        if self.form == "zip":
            return [tuple(t) for t in zip(*[s.req() for s in self.sub])]
        self.calls["request"] += 1
        pend, self.pending = tuple(self.pending), []
        return self._post([self._ctx((self.tag, "request", j, pend)) for j in range(self.nres)])

    def src(self):
        t = self.tag
        if self.form != "iterable":
            self.calls["src"] += 1
        if self.form == "call":
            return [(t, "src", 0), (t, "src", 1)]
        if self.form == "empty":
            return []
        if self.form == "tail":
            return [("post", t, (t, "src", 0))]
        return [("post", t, (t, "it", 0)), ("post", t, (t, "it", 1))]

    def run(self, blk):
        t, f = self.tag, self.form
        self.runs += 1
        if f == "fc_in_seq":
            self.calls["compute"] += 1          # the Run adapter of the Sequence computes the element once per block
        elif f not in ("map", "mutmap"):
            self.calls["run"] += 1
        if f == "map":
            return [(t, "map", v) for v in blk]
        if f == "mutmap":
            return [(t, "mut", len(v) + 1) for v in blk]
        if f in ("block", "block_seq"):
            return [(t, "block", tuple(blk))]
        if f == "filter_seq":
            return [(t, "map", v) for v in blk if keep(v)]
        if f == "fc_in_seq":
            # Sequence(el).run(block): the element is filled with the block (it keeps what earlier blocks filled) and computed
            self.filled.extend(blk)
            return [(t, "compute", 0, tuple(self.filled))]
        if f == "tuple_block":
            return [(t, "block", tuple((t, "map", v) for v in blk))]
        if f == "count":
            return [(t, "run", self.runs, len(blk))]
        raise ValueError(f)


def blocks_of(flow, bufsize):
    if bufsize is None:
        return [list(flow)] if flow else []
    return [flow[j:j + bufsize] for j in range(0, len(flow), bufsize)]


def split_spec(descs, bufsize, flow):
    """the property's schedule; returns (expected output, branch reference states)"""
    refs = [Ref(d, str(i)) for i, d in enumerate(descs)]
    if not refs:
        return list(flow), refs                                    # empty Split = identity
    out, active = [], list(range(len(refs)))
    for blk in blocks_of(flow, bufsize):                           # block by block
        for i in list(active):                                     # inside a block in branch order
            b = refs[i]
            if b.kind == "src":                                    # complete output the first time it is reached
                out += b.src()
                active.remove(i)
            elif b.kind == "seq":                                  # run on that block
                out += b.run(blk)
            else:
                stopped = b.offer(blk)
                if b.kind == "fr":                                 # request() results after the block
                    out += b.req()
                    if stopped:
                        active.remove(i)                           # finalised (requested) and dropped
                elif stopped:
                    out += b.comp()                                # finalised and dropped
                    active.remove(i)
    for i in active:                                               # after the last block
        b = refs[i]
        if b.kind == "fc":
            out += b.comp()
        elif not flow:                                             # empty flow: invoked exactly once
            out += b.src() if b.kind == "src" else b.run([]) if b.kind == "seq" else b.req()
    return out, refs


# ------------------------------------------------------------------ rendering / classification
def show1(d):
    s = "%s:%s" % (d["k"], d["form"])
    extra = []
    if d.get("stop") is not None:
        extra.append("stop%s=%d" % ("-once" if d.get("once") else "", d["stop"]))
    if "nres" in d and d["nres"] != 1:
        extra.append("nres=%d" % d["nres"])
    if d.get("ctx"):
        extra.append("ctx=%s" % d["ctx"])
    if d.get("sub"):
        extra.append(show(d["sub"]))
    return s + ("(%s)" % ",".join(extra) if extra else "")


def show(descs):
    return "[" + ", ".join(show1(d) for d in descs) + "]"


def top_tag(o):
    """index of the top-level branch an output belongs to (or None)"""
    try:
        while isinstance(o, tuple) and o:
            if o[0] == "post":
                o = o[1]
                break
            if isinstance(o[0], tuple):           # (data, context) pair or a Zip tuple
                o = o[0]
                continue
            o = o[0]
            break
        if isinstance(o, str):
            return int(o.split(".")[0])
    except Exception:
        pass
    return None


def relation(g, e):
    if len(g) < len(e) and g == e[:len(g)]:
        return "missing-results"
    if len(g) > len(e) and g[:len(e)] == e:
        return "extra-results"
    return "wrong-results"


def classify(descs, refs, got, exp, flow):
    """a stable name of the clause that failed"""
    q = "/empty-flow" if not flow else ""
    for i, d in enumerate(descs):
        g = [o for o in got if top_tag(o) == i]
        e = [o for o in exp if top_tag(o) == i]
        if g != e:
            s = "/after-stop" if refs[i].stop_fired else ""
            return "Split.run/%s-%s%s%s" % (KIND_NAME[d["k"]], relation(g, e), s, q)
    if any(top_tag(o) is None for o in got):
        return "Split.run/foreign-values%s" % q
    s = "/with-stop" if any(r.stop_fired for r in refs) else ""
    return "Split.run/block-or-branch-order%s%s" % (s, q)


def localise(make, descs):
    """kind:form of the first single branch that alone reproduces the exception type of make(descs)"""
    try:
        make(descs)
        return None
    except Exception as e0:
        for d in descs:
            try:
                make([d])
            except Exception as e:
                if type(e) is type(e0):
                    return "%s:%s" % (KIND_NAME[d["k"]], d["form"])
            # else continue
    return "mix"


def short(x, n=300):
    s = repr(x)
    return s if len(s) <= n else s[:n] + "..."


# ------------------------------------------------------------------ checks (None or (fid, text))
def check_run(descs, bufsize, copy_buf, flow_json, mode="iter", prefix=None):
    log = []
    call = "Split(%s, bufsize=%r, copy_buf=%r)" % (show(descs), bufsize, copy_buf)

    def make(ds, bs=bufsize, lg=None):
        return Split([build(d, str(i), log if lg is None else lg) for i, d in enumerate(ds)], bufsize=bs, copy_buf=copy_buf)
    try:
        with watchdog(WD[0]):
            s = make(descs)
    except Timeout:
        return ("Split.__init__/non-termination", call)
    except Exception as e:
        where = localise(lambda ds: make(ds, lg=[]), descs)
        q = ""
        if bufsize is None:
            try:
                make(descs, 1, [])
                q = "/bufsize-None"
            except Exception:
                pass
        return ("Split.__init__/raises-%s/%s%s" % (type(e).__name__, where, q), "%s raises %s: %s" % (call, type(e).__name__, e))
    flow = dec(flow_json)
    call += ".run(%s %s)" % (mode, short(flow, 80))
    try:
        with watchdog(WD[0]):
            got = list(s.run(feed(flow, mode)))
    except Timeout:
        return ("Split.run/non-termination", call)
    except Exception as e:
        return ("Split.run/raises-%s%s" % (type(e).__name__, "/empty-flow" if not flow else ""),
                "%s raises %s: %s" % (call, type(e).__name__, e))
    exp, refs = split_spec(descs, bufsize, dec(flow_json))
    if not descs:
        if got != exp:
            return ("Split.run/empty-split-not-identity", "%s = %s, expected the flow" % (call, short(got)))
        if mode != "tuple" and any(a is not b for a, b in zip(got, flow)):
            return ("Split.run/empty-split-not-same-objects", "%s yields copies, not the values it received" % call)
        return None
    if got != exp:
        fid = classify(descs, refs, got, exp, flow)
        if prefix:
            alt = check_run(tame(descs), bufsize, copy_buf, flow_json, mode)
            if alt:
                return alt
            fid = prefix + fid.split("/", 1)[1]
        return (fid, "%s = %s, expected %s" % (call, short(got), short(exp)))
    # invocation counts and fills of the top-level logging branches (visible even when a branch yields nothing)
    real = collections.Counter((ev[0], ev[1]) for ev in log if ev[0] != "fill" and "." not in ev[1])
    want = collections.Counter()
    for r in refs:
        for ev, n in r.calls.items():
            want[(ev, r.tag)] = n
    if real != want:
        for i, d in enumerate(descs):
            a = dict((k, v) for k, v in real.items() if k[1] == str(i))
            b = dict((k, v) for k, v in want.items() if k[1] == str(i))
            if a != b:
                return ("Split.run/%s-invocations%s" % (KIND_NAME[d["k"]], "/empty-flow" if not flow else ""),
                        "%s: branch %d invoked %r, expected %r" % (call, i, sorted(a.items()), sorted(b.items())))
    for r in refs:
        if r.kind in ("fc", "fr") and not r.sub:
            fills = [ev[2] for ev in log if ev[0] == "fill" and ev[1] == r.tag]
            if fills != r.filled:
                return ("Split.run/%s-fills" % KIND_NAME[r.kind], "%s: branch %s was filled with %s, expected %s"
                        % (call, r.tag, short(fills), short(r.filled)))
    return None


def check_indep(descs, copy_buf, flow_json):
    """relation between runs: results of fill/compute and per-value branches do not depend on bufsize"""
    flow0 = dec(flow_json)
    claimed = [i for i, d in enumerate(descs) if d["k"] == "fc" or (d["k"] == "seq" and d["form"] in ("map", "filter_seq"))]
    base = None
    for bs in [None] + list(range(1, len(flow0) + 2)) + [1000]:
        log = []
        try:
            with watchdog(WD[0]):
                s = Split([build(d, str(i), log) for i, d in enumerate(descs)], bufsize=bs, copy_buf=copy_buf)
                got = list(s.run(iter(dec(flow_json))))
        except Timeout:
            return ("Split.run/non-termination", "Split(%s, bufsize=%r).run(%s)" % (show(descs), bs, short(flow0, 80)))
        except Exception as e:
            return ("Split.run/raises-%s" % type(e).__name__, "Split(%s, bufsize=%r).run(%s) raises %s"
                    % (show(descs), bs, short(flow0, 80), e))
        proj = dict((i, [o for o in got if top_tag(o) == i]) for i in claimed)
        if base is None:
            base = proj
            continue
        for i in claimed:
            if proj[i] != base[i]:
                what = "fill_compute" if descs[i]["k"] == "fc" else "per-value-sequence"
                return ("Split.run/bufsize-dependence/%s" % what,
                        "Split(%s, copy_buf=%r).run(%s): branch %d gives %s with bufsize=None but %s with bufsize=%r"
                        % (show(descs), copy_buf, short(flow0, 80), i, short(base[i], 120), short(proj[i], 120), bs))
    return None


def check_common(kind, descs, copy_buf, flow_json, rounds):
    """common-type methods of a Split whose branches share one type"""
    log = []
    call = "Split(%s, copy_buf=%r)" % (show(descs), copy_buf)
    name = {"fc": "compute", "fr": "request", "src": "__call__"}[kind]

    def make(ds):
        return Split([build(d, str(i), [] if ds is not descs else log) for i, d in enumerate(ds)], copy_buf=copy_buf)
    try:
        s = make(descs)
    except Exception as e:
        return ("Split.__init__/raises-%s/%s" % (type(e).__name__, localise(make, descs)), "%s raises %s: %s" % (call, type(e).__name__, e))
    refs = [Ref(d, str(i)) for i, d in enumerate(descs)]
    flow, rflow = dec(flow_json), dec(flow_json)
    mutating = any(d["form"] == "tuple_mut" for d in descs)
    try:
        with watchdog(WD[0]):
            if kind == "src":
                got = list(s())
                exp = [r for b in refs for r in b.src()]
                got2, exp2 = list(s()), [r for b in refs for r in b.src()]        # callable again
                if got == exp and got2 != exp2:
                    return ("Split.__call__/second-call-differs", "%s() second call = %s" % (call, short(got2)))
            else:
                if not (callable(getattr(s, "fill", None)) and callable(getattr(s, name, None))):
                    return ("Split.common/%s-methods-missing" % KIND_NAME[kind], "%s has no fill/%s" % (call, name))
                got, exp, pos = [], [], 0
                for n in rounds:
                    for v, rv in zip(flow[pos:pos + n], rflow[pos:pos + n]):
                        s.fill(v)
                        for b in refs:
                            b.fill1(rv)
                    pos += n
                    if kind == "fr":
                        got += list(s.request())
                        exp += [r for b in refs for r in b.req()]
                if kind == "fc":
                    got = list(s.compute())
                    exp = [r for b in refs for r in b.comp()]
    except Timeout:
        return ("Split.%s/non-termination" % name, call)
    except Exception as e:
        return ("Split.%s/raises-%s" % (name, type(e).__name__), "%s fill/%s on %s raises %s: %s" % (call, name, short(flow, 80), type(e).__name__, e))
    what = "%s filled with %s (rounds %r) then %s = %s, expected %s" % (call, short(flow, 80), rounds, name, short(got), short(exp))
    if got != exp:
        if mutating:          # interference only if the same list without in-place mutation behaves
            return check_common(kind, tame(descs), copy_buf, flow_json, rounds) or ("Split.%s/copy_buf-interference" % name, what)
        for i in range(len(descs)):
            g = [o for o in got if top_tag(o) == i]
            e = [o for o in exp if top_tag(o) == i]
            if g != e:
                return ("Split.%s/branch-%s" % (name, relation(g, e)), what)
        return ("Split.%s/branch-order" % name, what)
    real = collections.Counter((ev[0], ev[1]) for ev in log if ev[0] != "fill")
    want = collections.Counter()
    for r in refs:
        for ev, n in r.calls.items():
            want[(ev, r.tag)] = n
    if real != want:
        return ("Split.%s/branch-invocations" % name, "%s: invocations %r, expected %r" % (call, sorted(real.items()), sorted(want.items())))
    if kind == "fc" and sum(rounds) >= len(flow):
        # "with the same meaning": as a FillCompute element it gives what run gives on the same flow
        s2 = Split([build(d, str(i), []) for i, d in enumerate(descs)], copy_buf=copy_buf)
        try:
            with watchdog(WD[0]):
                got_run = list(s2.run(iter(dec(flow_json))))
        except Exception as e:
            got_run = "%s" % type(e).__name__
        if got_run != got:
            return ("Split.compute/differs-from-run", "%s: run gives %s, fill+compute gives %s" % (call, short(got_run), short(got)))
    return None


def data_part(o):
    return o[0] if isinstance(o, tuple) and len(o) == 2 and isinstance(o[1], dict) else o


def check_zip(kind, descs, fields, flow_json, rounds):
    """Zip of branches of one type: tuples of the i-th results, stopping at the shortest"""
    log = []
    call = "Zip(%s%s)" % (show(descs), ", fields=%r" % (fields,) if fields else "")
    name = {"fc": "compute", "fr": "request"}[kind]

    def make(ds):
        kw = {"fields": fields} if fields and ds is descs else {}
        return Zip([build(d, str(i), [] if ds is not descs else log) for i, d in enumerate(ds)], **kw)
    try:
        z = make(descs)
    except Exception as e:
        return ("Zip.__init__/raises-%s/%s" % (type(e).__name__, localise(make, descs)), "%s raises %s: %s" % (call, type(e).__name__, e))
    refs = [Ref(d, str(i)) for i, d in enumerate(descs)]
    flow, rflow = dec(flow_json), dec(flow_json)
    mutating = any(d["form"] == "tuple_mut" for d in descs)
    if not (callable(getattr(z, "fill", None)) and callable(getattr(z, name, None))):
        return ("Zip.common/%s-methods-missing" % KIND_NAME[kind], "%s has no fill/%s" % (call, name))
    try:
        with watchdog(WD[0]):
            got, exp, pos = [], [], 0
            for n in rounds:
                for v, rv in zip(flow[pos:pos + n], rflow[pos:pos + n]):
                    z.fill(v)
                    for b in refs:
                        b.fill1(rv)
                pos += n
                if kind == "fr":
                    got += list(z.request())
                    exp += [tuple(data_part(r) for r in t) for t in zip(*[b.req() for b in refs])]
            if kind == "fc":
                got = list(z.compute())
                exp = [tuple(data_part(r) for r in t) for t in zip(*[b.comp() for b in refs])]
    except Timeout:
        return ("Zip.%s/non-termination" % name, call)
    except Exception as e:
        return ("Zip.%s/raises-%s" % (name, type(e).__name__), "%s fill/%s on %s raises %s: %s" % (call, name, short(flow, 80), type(e).__name__, e))
    gd = [data_part(o) for o in got]
    what = "%s filled with %s (rounds %r) then %s = %s, expected data %s" % (call, short(flow, 80), rounds, name, short(got), short(exp))
    if gd != exp:
        if mutating:
            return check_zip(kind, tame(descs), fields, flow_json, rounds) or ("Zip.%s/fill-interference" % name, what)
        if len(gd) > len(exp) and [tuple(t) if isinstance(t, tuple) else t for t in gd[:len(exp)]] == exp:
            return ("Zip.%s/too-many-tuples" % name, what)
        if len(gd) < len(exp) and gd == exp[:len(gd)]:
            return ("Zip.%s/too-few-tuples" % name, what)
        return ("Zip.%s/wrong-tuples" % name, what)
    if not all(isinstance(t, tuple) for t in gd):
        return ("Zip.%s/not-tuples" % name, what)
    if fields and any(getattr(t, "_fields", None) != tuple(fields) for t in gd):
        return ("Zip.%s/fields-not-used" % name, what)
    return None


def tame(descs):
    """the same branch list with the value-mutating branches replaced by their harmless counterparts"""
    swap = {"tuple_mut": "tuple", "mutmap": "map"}
    return [dict(d, form=swap.get(d["form"], d["form"])) for d in descs]


def rp(fn):
    def replay(*a):
        WD[0] = 8.0
        return bool(fn(*a))
    return replay


CHECKS = {}


CHECKS.update({"run": check_run, "indep": check_indep, "common": check_common, "zip": check_zip})
REPLAYERS = dict((k, rp(f)) for k, f in CHECKS.items())


class TooManyTimeouts(Exception):
    pass


def report(R, res, fn, args):
    if res and "non-termination" in res[0]:          # a stall of a busy machine is not a hang: look again, patiently
        WD[0] = 8.0
        try:
            res = CHECKS[fn](*args)
        finally:
            WD[0] = 2.0
    if res and "non-termination" in res[0] and R.fail_counts.get(res[0], 0) >= 2:
        R.fail(res[0], res[1], {"fn": fn, "args": args}, {"fn": fn, "args": args})
        raise TooManyTimeouts(res[0])
    R.check(res is None, res[0] if res else "", res[1] if res else "", {"fn": fn, "args": args}, {"fn": fn, "args": args})


# ------------------------------------------------------------------ scopes
CANON = {"src": {"k": "src", "form": "call"}, "fc": {"k": "fc", "form": "el"}, "fr": {"k": "fr", "form": "el"},
         "seq": {"k": "seq", "form": "block"}}


def with_stops(descs, L, stop_set=None):
    """all assignments of a LenaStopFill index (or none) to the plain fill branches"""
    opts = []
    for d in descs:
        if d["k"] in ("fc", "fr") and d["form"] not in ("split", "zip"):
            ks = [k for k in range(L) if stop_set is None or k in stop_set]
            opts.append([d] + [dict(d, stop=k, once=((k + len(opts)) % 2 == 0)) for k in ks])
        else:
            opts.append([d])
    return itertools.product(*opts)


def bufsizes(L):
    return list(range(1, L + 2)) + [1000, None]


def all_forms():
    sub_fc = [{"k": "fc", "form": "el"}, {"k": "fc", "form": "el", "nres": 2}]
    sub_fr = [{"k": "fr", "form": "el"}, {"k": "fr", "form": "el", "nres": 2}]
    return [
        {"k": "src", "form": "call"}, {"k": "src", "form": "empty"}, {"k": "src", "form": "tail"}, {"k": "src", "form": "iterable"},
        {"k": "fc", "form": "el"}, {"k": "fc", "form": "seq"}, {"k": "fc", "form": "tuple"}, {"k": "fc", "form": "tuple_post"},
        {"k": "fc", "form": "el", "nres": 0}, {"k": "fc", "form": "el", "nres": 2},
        {"k": "fc", "form": "split", "sub": sub_fc}, {"k": "fc", "form": "zip", "sub": sub_fc},
        {"k": "fr", "form": "el"}, {"k": "fr", "form": "seq"}, {"k": "fr", "form": "tuple"},
        {"k": "fr", "form": "el", "nres": 0}, {"k": "fr", "form": "el", "nres": 2},
        {"k": "fr", "form": "split", "sub": sub_fr}, {"k": "fr", "form": "zip", "sub": sub_fr},
        {"k": "seq", "form": "map"}, {"k": "seq", "form": "block"}, {"k": "seq", "form": "block_seq"},
        {"k": "seq", "form": "filter_seq"}, {"k": "seq", "form": "tuple_block"}, {"k": "seq", "form": "count"},
        {"k": "seq", "form": "fc_in_seq"},
    ]


def body(R):
    try:
        scopes(R)
    except TooManyTimeouts as e:
        R.fail("harness/aborted-after-repeated-non-termination", "run stopped after 3 reports of %s; the remaining scopes were not executed" % e)


def scopes(R):
    rng = R.rng
    T = R.thorough
    kinds = ["src", "fc", "fr", "seq"]

    # --- A: the property's own quantifier domain on canonical tagged branches
    nmax, Lmax = (4, 4) if T else (3, 4)
    R.scope("Split.run schedule (canonical tagged branches)",
            "ALL branch lists of length 0..%d over {Source, fill/compute el, fill/request el, block-recording Sequence}; "
            "LenaStopFill at every fill index 0..L-1 (or never) of every fill branch (raised once or on every later fill too, alternating with index+position); flows 0,1,..,L-1 of length L=0..%d%s; "
            "bufsize in {1..L+1, 1000, None}; copy_buf in {True, False}; output, invocation counts and fills vs split_spec"
            % (nmax, Lmax, " (and L=5 for lists of length <= 3)" if T else ""), True)
    for n in range(0, nmax + 1):
        for ks in itertools.product(kinds, repeat=n):
            base = [CANON[k] for k in ks]
            for L in range(0, Lmax + 1 + (1 if T and n <= 3 else 0)):
                flow = list(range(L))
                for descs in with_stops(base, L):
                    descs = list(descs)
                    for bs in bufsizes(L):
                        for cb in (True, False):
                            R.case(n > 0, {"branches": show(descs), "bufsize": bs, "copy_buf": cb, "flow": flow})
                            report(R, check_run(descs, bs, cb, flow), "run", [descs, bs, cb, flow])
    if not T:
        R.scope("Split.run schedule (canonical tagged branches, 4 branches)",
                "3000 random lists of 4 canonical branches, random stop indices, flows of length 0..4, bufsize in {1..L+1,1000,None}, copy_buf random", False)
        for _ in range(3000):
            L = rng.randint(0, 4)
            descs = [dict(CANON[rng.choice(kinds)]) for _ in range(4)]
            for d in descs:
                if d["k"] in ("fc", "fr") and L and rng.random() < 0.6:
                    d["stop"], d["once"] = rng.randrange(L), rng.random() < 0.5
            bs, cb = rng.choice(bufsizes(L)), rng.random() < 0.5
            R.case(True)
            report(R, check_run(descs, bs, cb, list(range(L))), "run", [descs, bs, cb, list(range(L))])

    # --- A2: bufsize None / 1000 on flows longer than 1000
    R.scope("Split.run schedule (flows longer than 1000)",
            "flows 0..L-1 with L in {999,1000,1001,2001}; bufsize in {None, 1000, 7}; branch lists [block], [fr, block, fc], [fc stop=1000, src, fr stop-once=1500, block]; "
            "copy_buf in {True, False}", True)
    longs = [[CANON["seq"]], [CANON["fr"], CANON["seq"], CANON["fc"]],
             [dict(CANON["fc"], stop=1000), CANON["src"], dict(CANON["fr"], stop=1500, once=True), CANON["seq"]]]
    for descs in longs:
        for L in (999, 1000, 1001, 2001):
            for bs in (None, 1000, 7):
                for cb in (True, False):
                    R.case(True)
                    a = [descs, bs, cb, {"__range": L}]
                    report(R, check_run(*a), "run", a)

    # --- B: every way a branch can be given (classification and conversion), lists of length 1..2
    forms = all_forms()
    Ls = (0, 1, 2, 3) if T else (0, 2, 3)
    R.scope("Split.run schedule (all branch forms: _get_seq_with_type)",
            "ALL lists of length 1..2 over 25 branch forms (Source of callable/empty/with tail/iterable; fill/compute and fill/request as bare "
            "element, *Seq instance with pre/post maps, tuple to convert, 0/2 results, nested common-type Split and Zip; Sequence as lambda, "
            "run element, Sequence instance, per-value filter+map, tuple, stateful); stop index in {none,0,1,2}; flows of length %s; "
            "bufsize in {1,2,L+1,None}; copy_buf %s" % (list(Ls), "in {True, False}" if T else "True (False for single branches)"), True)
    for n in (1, 2):
        for base in itertools.product(forms, repeat=n):
            for L in Ls:
                flow = list(range(L))
                for descs in with_stops(list(base), L, (0, 1, 2)):
                    descs = list(descs)
                    for bs in sorted(set([1, 2, L + 1])) + [None]:
                        for cb in ((True, False) if (T or n == 1) else (True,)):
                            R.case(True, {"branches": show(descs), "bufsize": bs, "copy_buf": cb, "flow": flow})
                            report(R, check_run(descs, bs, cb, flow), "run", [descs, bs, cb, flow])

    # --- C: random breadth
    n_rand = 60000 if T else 5000
    R.scope("Split.run schedule (random)",
            "%d random cases: 0..%d branches of any form with random stop indices, flows of length 0..8 over falsy/mutable/(data, context) values, "
            "flow given as list/tuple/iterator/generator, bufsize in {1..L+1, 1000, None}, copy_buf random" % (n_rand, 6 if T else 5), False)
    for _ in range(n_rand):
        n = rng.randint(0, 6 if T else 5)
        L = rng.choice([0, 1, 2, 3, 4, 5, 6, 8])
        descs = []
        for _j in range(n):
            d = copy.deepcopy(rng.choice(forms))
            if d["k"] in ("fc", "fr") and d["form"] not in ("split", "zip") and L and rng.random() < 0.5:
                d["stop"], d["once"] = rng.randrange(L), rng.random() < 0.5
            descs.append(d)
        flow = [rng.choice(VALUES) for _j in range(L)]
        bs, cb = rng.choice(bufsizes(L)), rng.random() < 0.5
        mode = rng.choice(["list", "tuple", "iter", "gen"])
        R.case(True, {"branches": show(descs), "bufsize": bs, "copy_buf": cb, "flow": flow, "mode": mode})
        report(R, check_run(descs, bs, cb, flow, mode), "run", [descs, bs, cb, flow, mode])

    # --- D: bufsize independence as a relation between runs
    vocab = [{"k": "fc", "form": "el"}, {"k": "fc", "form": "tuple"}, {"k": "seq", "form": "map"}, {"k": "seq", "form": "filter_seq"},
             {"k": "fr", "form": "el"}, {"k": "seq", "form": "block"}, {"k": "src", "form": "call"}]
    nD = 3 if T else 2
    R.scope("Split.run bufsize independence (relation between runs)",
            "ALL lists of length 1..%d over {fc el, fc tuple, per-value map, per-value filter+map, fr el, block Sequence, Source} with at least one "
            "fill/compute or per-value branch, stop index in {none,0,1,L-1}, flows 0..L-1 of length 0..4, copy_buf in {True,False}: the results of the "
            "fill/compute and per-value branches are the same for every bufsize in {None,1..L+1,1000}" % nD, True)
    for n in range(1, nD + 1):
        for base in itertools.product(vocab, repeat=n):
            if not any(d["k"] == "fc" or d["form"] in ("map", "filter_seq") for d in base):
                continue
            for L in range(0, 5):
                for descs in with_stops(list(base), L, (0, 1, L - 1)):
                    descs = list(descs)
                    for cb in (True, False):
                        R.case(L > 0, None)
                        report(R, check_indep(descs, cb, list(range(L))), "indep", [descs, cb, list(range(L))])
    if not T:
        R.scope("Split.run bufsize independence (relation between runs, 3 branches)", "600 random lists of 3 branches of the same vocabulary, flows of length 1..5", False)
        for _ in range(600):
            L = rng.randint(1, 5)
            descs = [dict(rng.choice(vocab)) for _j in range(3)]
            descs[rng.randrange(3)] = dict(vocab[rng.randrange(4)])
            for d in descs:
                if d["k"] in ("fc", "fr") and rng.random() < 0.5:
                    d["stop"], d["once"] = rng.randrange(L), rng.random() < 0.5
            cb = rng.random() < 0.5
            flow = [rng.choice(VALUES[:8]) for _j in range(L)]
            R.case(True)
            report(R, check_indep(descs, cb, flow), "indep", [descs, cb, flow])

    # --- E: empty Split is the identity
    Le = 3 if T else 2
    R.scope("Split([]).run identity", "ALL flows of length 0..%d over %d values (falsy, mutable, (data, context)); bufsize in {1,2,1000,None}; copy_buf in "
            "{True,False}; flow as iterator and list: the same values (the same objects) in the same order" % (Le, len(VALUES)), True)
    for L in range(0, Le + 1):
        for flow in itertools.product(VALUES, repeat=L):
            flow = list(flow)
            for bs in (1, 2, 1000, None):
                for cb in (True, False):
                    for mode in ("iter", "list"):
                        R.case(L > 0)
                        report(R, check_run([], bs, cb, flow, mode), "run", [[], bs, cb, flow, mode])

    # --- F: common-type methods
    fcf = [{"k": "fc", "form": "el"}, {"k": "fc", "form": "seq"}, {"k": "fc", "form": "tuple"}, {"k": "fc", "form": "tuple_post"},
           {"k": "fc", "form": "el", "nres": 0}, {"k": "fc", "form": "el", "nres": 2}]
    frf = [{"k": "fr", "form": "el"}, {"k": "fr", "form": "seq"}, {"k": "fr", "form": "tuple"},
           {"k": "fr", "form": "el", "nres": 0}, {"k": "fr", "form": "el", "nres": 2}]
    srf = [f for f in forms if f["k"] == "src"]
    mut_flow = [[0], [], [2]]
    R.scope("Split common-type methods fill/compute, fill/request, __call__",
            "ALL lists of length 1..3 of one kind (6 fill/compute forms, 5 fill/request forms, 4 Source forms); copy_buf in {True,False}; flows of "
            "length 0..3 of ints and of mutable lists (with copy_buf=True also with a value-mutating fill/compute branch at every position); fill/request in rounds (fill k values, request) for 5 round patterns; compute/request/__call__ == "
            "concatenation of the branches' results in branch order, each branch filled with every value; fill+compute == run", True)
    for n in (1, 2, 3):
        for base in itertools.product(fcf, repeat=n):
            for cb in (True, False):
                for flow in ([], [0], [0, 1], [0, 1, 2], mut_flow):
                    R.case(True, {"branches": show(base), "flow": flow})
                    a = ["fc", list(base), cb, flow, [len(flow)]]
                    report(R, check_common(*a), "common", a)
        for base in itertools.product(fcf[:3], repeat=n):          # copy_buf=True: a value-mutating branch at every position
            for pos in range(n + 1):
                a = ["fc", list(base[:pos]) + [{"k": "fc", "form": "tuple_mut"}] + list(base[pos:]), True, mut_flow, [3]]
                R.case(True)
                report(R, check_common(*a), "common", a)
        for base in itertools.product(frf, repeat=n):
            for cb in (True, False):
                for flow, rounds in (([], [0]), ([0, 1], [2]), ([0, 1, 2], [1, 2]), ([0], [0, 1]), (mut_flow, [2, 0, 1])):
                    R.case(True)
                    a = ["fr", list(base), cb, flow, rounds]
                    report(R, check_common(*a), "common", a)
        for base in itertools.product(srf, repeat=n):
            for cb in (True, False):
                R.case(True)
                a = ["src", list(base), cb, [], []]
                report(R, check_common(*a), "common", a)

    # --- G: Zip
    zfc = [{"k": "fc", "form": "el", "nres": r} for r in (0, 1, 2, 3)] + [{"k": "fc", "form": "seq"}, {"k": "fc", "form": "tuple"},
           {"k": "fc", "form": "el", "nres": 2, "ctx": "own"}, {"k": "fc", "form": "el", "nres": 3, "ctx": "empty"}]
    zfr = [{"k": "fr", "form": "el", "nres": r} for r in (0, 1, 2, 3)] + [{"k": "fr", "form": "seq"}, {"k": "fr", "form": "tuple"},
           {"k": "fr", "form": "el", "nres": 2, "ctx": "own"}]
    R.scope("Zip fill/compute and fill/request",
            "ALL lists of length 1..3 over 8 fill/compute forms (0..3 results, with pre/post maps, tuple to convert, results with own/empty context) "
            "and 7 fill/request forms; with and without namedtuple fields; flows of length 0..2 (ints, mutable lists; also with a value-mutating branch at every position); request in rounds: "
            "the i-th tuple is the tuple of the branches' i-th results (data parts), as many tuples as the shortest branch has results", True)
    for n in (1, 2, 3):
        fld = [None, ["f%d" % j for j in range(n)]]
        for base in itertools.product(zfc, repeat=n):
            for fields in fld:
                for flow in ([], [0, 1], [[5], []]):
                    R.case(True, {"zip": show(base), "flow": flow})
                    a = ["fc", list(base), fields, flow, [len(flow)]]
                    report(R, check_zip(*a), "zip", a)
            if n < 3:
                for pos in range(n + 1):                            # a value-mutating branch at every position
                    a = ["fc", list(base[:pos]) + [{"k": "fc", "form": "tuple_mut"}] + list(base[pos:]), None, [[5], []], [2]]
                    R.case(True)
                    report(R, check_zip(*a), "zip", a)
        for base in itertools.product(zfr, repeat=n):
            for fields in fld:
                for flow, rounds in (([], [0]), ([0, 1, 2], [1, 2]), ([[5], []], [0, 2, 0])):
                    R.case(True)
                    a = ["fr", list(base), fields, flow, rounds]
                    report(R, check_zip(*a), "zip", a)

    # --- H: copy_buf=True shields the branches from a branch that changes its values in place
    others = [{"k": "fc", "form": "el"}, {"k": "fr", "form": "el"}, {"k": "seq", "form": "block"}, {"k": "seq", "form": "map"}, {"k": "fc", "form": "tuple"}]
    mut = {"k": "seq", "form": "mutmap"}
    R.scope("Split.run with copy_buf=True and a value-mutating branch",
            "ALL lists of length 2..3 with one in-place mutating map branch at every position and the others over {fc el, fc tuple, fr el, block, map}; "
            "flows of 0..3 mutable lists; bufsize in {1,2,None}; stop index in {none,1}: output == split_spec on the unmutated values", True)
    for n in (1, 2):
        for base in itertools.product(others, repeat=n):
            for pos in range(n + 1):
                lst = list(base[:pos]) + [mut] + list(base[pos:])
                for L in range(0, 4):
                    flow = [[k] for k in range(L)]
                    for descs in with_stops(lst, L, (1,)):
                        descs = list(descs)
                        for bs in (1, 2, None):
                            R.case(L > 0)
                            a = [descs, bs, True, flow, "iter", "Split.run/copy_buf-interference/"]
                            report(R, check_run(*a), "run", a)


if __name__ == "__main__":
    R = Run("C03", REPLAYERS)
    sys.exit(R.main(body, "exhaustive enumeration of tagged branch lists x stop indices x bufsize x copy_buf x flows (the property's quantifier), "
                          "all branch forms for lists of length <= 2, seeded random breadth; a case is non-trivial when the real Split/Zip was "
                          "built, driven and compared with the reference schedule; cases are distinct by construction of the enumeration"))
